#!/bin/bash
# Runs the repository's stable baseline with the verification guard (cargo feature `verif`) OFF
# and compares the result with /root/.vp/BASELINE.json (all stable_pass tests must pass).
set -u
export CARGO_NET_OFFLINE=true
REPO_DIR="${BASE_REPO:-/repo}"
cd "$REPO_DIR" || exit 2
rm -f target/nextest/vb/junit.xml
cargo nextest run --workspace --no-fail-fast --tool-config-file vb:/verif/tools/nextest.toml --profile vb --test-threads 8 --offline >/tmp/verif_baseline.log 2>&1
python3 - <<'PY'
import json, sys, xml.etree.ElementTree as ET
base = json.load(open('/root/.vp/BASELINE.json'))
try:
    root = ET.parse(__import__("os").environ.get("BASE_REPO","/repo") + '/target/nextest/vb/junit.xml').getroot()
except Exception as e:
    print("baseline: no junit output:", e); sys.exit(2)
res = {}
for suite in root.iter('testsuite'):
    sname = suite.get('name')
    for tc in suite.iter('testcase'):
        ok = tc.find('failure') is None and tc.find('error') is None
        name = tc.get('name')
        cls = tc.get('classname') or sname
        # nextest: classname = binary id (uflow, uflow::disconnect), name = test path
        full = (cls + '::' + name)
        res[full] = ok
missing = [t for t in base['stable_pass'] if not res.get(t, False)]
# The integration tests of this repository bind fixed UDP ports that are shared between test
# binaries (9999, 8888, 7777, 6666), so with 8 parallel test processes a test can fail with
# AddrInUse depending on scheduling. A stable test that did not pass is therefore re-run alone
# (no parallel tests), up to twice, before it is reported as not passing.
import subprocess
still = []
for t in missing:
    binary, _, name = t.partition('::') if not t.startswith('uflow::') or t.count('::') < 2 else (None, None, None)
    parts = t.split('::')
    # nextest ids: "uflow::<test path>" for the lib, "uflow::<bin>::<test>" for integration tests
    ok = False
    for attempt in range(2):
        if len(parts) == 3 and parts[1] in ('disconnect', 'timeouts', 'ideal_transfer', 'reliable_transfer'):
            cmd = ['cargo', 'test', '--offline', '--test', parts[1], parts[2], '--', '--exact']
        else:
            cmd = ['cargo', 'test', '--offline', '--lib', '::'.join(parts[1:]), '--', '--exact']
        r = subprocess.run(cmd, cwd=__import__("os").environ.get("BASE_REPO","/repo"), capture_output=True, text=True)
        if r.returncode == 0 and '1 passed' in r.stdout: ok = True; break
    print(f"  re-run alone: {t}: {'passed' if ok else 'FAILED'}")
    if ok: res[t] = True
    else: still.append(t)
missing = still
print(f"baseline(off): {sum(res.values())} passed of {len(res)} run; stable {len(base['stable_pass'])}, not passing: {len(missing)}")
for m in missing: print("  NOT PASSING:", m)
sys.exit(1 if missing else 0)
PY
