#!/bin/bash
# Runs the repository's stable baseline with the verification guard (cargo feature `verif`) OFF
# and compares the result with /root/.vp/BASELINE.json (all stable_pass tests must pass).
set -u
export CARGO_NET_OFFLINE=true
cd /repo || exit 2
rm -f target/nextest/vb/junit.xml
cargo nextest run --workspace --no-fail-fast --tool-config-file vb:/verif/tools/nextest.toml --profile vb --test-threads 8 --offline >/tmp/verif_baseline.log 2>&1
python3 - <<'PY'
import json, sys, xml.etree.ElementTree as ET
base = json.load(open('/root/.vp/BASELINE.json'))
try:
    root = ET.parse('/repo/target/nextest/vb/junit.xml').getroot()
except Exception as e:
    print("baseline: no junit output:", e); sys.exit(2)
res = {}
for suite in root.iter('testsuite'):
    sname = suite.get('name')
    for tc in suite.iter('testcase'):
        ok = tc.find('failure') is None and tc.find('error') is None
        name = tc.get('name')
        cls = tc.get('classname') or sname
        # nextest: classname = binary id (uflow, uflow::disconnect), name = test path
        full = (cls + '::' + name)
        res[full] = ok
missing = [t for t in base['stable_pass'] if not res.get(t, False)]
print(f"baseline(off): {sum(res.values())} passed of {len(res)} run; stable {len(base['stable_pass'])}, not passing: {len(missing)}")
for m in missing: print("  NOT PASSING:", m)
sys.exit(1 if missing else 0)
PY
