#!/bin/bash
# setup_cmd: builds the harness offline from files on disk (cargo cache + /repo + /verif/harness).
set -e
export CARGO_NET_OFFLINE=true
mkdir -p /verif/.build /verif/evidence /verif/replays
cd /verif/harness
cargo build --release --offline 2>&1 | tail -3
echo "setup: harness built"
