#!/bin/bash
# usage: confirm_seed.sh <ID> <agent worktree>
# Confirms a seeded change independently in a fresh scratch worktree: demo passes without the patch, fails with it,
# and the repository's stable baseline still passes with it. Prints a summary; removes the scratch worktree.
set -u
ID=$1; SRC=$2; W=/tmp/cs/$ID
rm -rf $W; mkdir -p /tmp/cs; git -C /repo worktree add --detach $W HEAD >/dev/null 2>&1 || exit 2
cp $SRC/tests/seeded_$ID.rs $W/tests/ 2>/dev/null || cp $SRC/seeded/demo.rs $W/tests/seeded_$ID.rs
cd $W
run_demo() { unshare -rn sh -c "ip link set lo up; cargo test --offline --features verif --test seeded_$ID 2>&1" | grep -E "^test result|panicked|error(\[|:)" | head -5; }
echo "--- demo WITHOUT the change:"; run_demo > /tmp/cs/$ID.without.txt; cat /tmp/cs/$ID.without.txt
git apply $SRC/seeded/patch.diff || { echo "patch does not apply"; cd /; git -C /repo worktree remove --force $W; exit 2; }
echo "--- demo WITH the change:"; run_demo > /tmp/cs/$ID.with.txt; cat /tmp/cs/$ID.with.txt
echo "--- baseline (guard off) WITH the change:"
rm -f tests/seeded_$ID.rs
BASE_REPO=$W unshare -rn sh -c "ip link set lo up; BASE_REPO=$W /verif/baseline_off.sh" | tail -4 > /tmp/cs/$ID.baseline.txt; cat /tmp/cs/$ID.baseline.txt
cd /; git -C /repo worktree remove --force $W
