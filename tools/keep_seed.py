#!/usr/bin/env python3
"""usage: keep_seed.py <seed name> <property> <agent worktree> <checks that detect it, comma separated> [note]
Stores a confirmed seeded change under /verif/seeded/<name>/ (patch.diff, demo.rs, meta.json)."""
import sys, json, os, shutil
name, prop, src, detected = sys.argv[1:5]
note = sys.argv[5] if len(sys.argv) > 5 else ""
d = f"/verif/seeded/{name}"; os.makedirs(d, exist_ok=True)
shutil.copy(f"{src}/seeded/patch.diff", f"{d}/patch.diff")
demo = f"{src}/tests/seeded_{prop}.rs" if os.path.exists(f"{src}/tests/seeded_{prop}.rs") else f"{src}/seeded/demo.rs"
shutil.copy(demo, f"{d}/demo.rs")
try: agent = json.load(open(f"{src}/seeded/meta.json"))
except Exception: agent = {}
rd = lambda f: open(f).read().strip() if os.path.exists(f) else ""
meta = {
 "property": prop,
 "origin": "independent sub-agent given only the property text and a scratch worktree",
 "summary": agent.get("summary", ""),
 "needs": agent.get("needs", ""),
 "files": agent.get("files", []),
 "demo": f"copy demo.rs to tests/seeded_{prop}.rs in a worktree of /repo; cargo test --offline --features verif --test seeded_{prop}",
 "confirmed_by_me": {
   "how": f"tools/confirm_seed.sh {prop} <agent worktree>: fresh scratch worktree of /repo HEAD, demo run without and with patch.diff, then the stable baseline (guard off, private network namespace) with the patch",
   "demo_without_change": rd(f"/tmp/cs/{prop}.without.txt"),
   "demo_with_change": rd(f"/tmp/cs/{prop}.with.txt"),
   "baseline_with_change": rd(f"/tmp/cs/{prop}.baseline.txt"),
 },
 "detected_by_quick_checks": [x for x in detected.split(",") if x],
 "note": note,
}
json.dump(meta, open(f"{d}/meta.json", "w"), indent=1)
print("kept", d, "detected by", meta["detected_by_quick_checks"])
