#!/bin/bash
# usage: test_patches_scratch.sh <list file: "name patch-path ID[,ID...]" per line> [workers]
# Like run_seeds_scratch.sh, for arbitrary patches (e.g. the output of a seeding round before it is kept).
set -u
. /verif/tools/scratch_lib.sh
LIST=$1; W=${2:-4}; R=/tmp/tp; mkdir -p $R; rm -f $R/result.*.txt
worker() {
  local k=$1 S=$R/w$1
  scratch_setup $S || { echo "worker $k: setup failed"; return; }
  sed -n "$((k+1))~${W}p" $LIST | while read name patch ids; do
    git -C $S/repo checkout -- . ; git -C $S/repo apply $patch 2>/dev/null || { echo "$name: PATCH-DOES-NOT-APPLY" >> $R/result.$k.txt; continue; }
    scratch_build $S || { echo "$name: BUILD-FAILED" >> $R/result.$k.txt; continue; }
    res=""
    for id in $(echo $ids | tr ',' ' '); do
      out=$(VERIF_THREADS=$((16 / W)) scratch_run $S $id quick)
      if echo "$out" | grep -q "^VIOLATION property=$id"; then res="$res $id:detected[$(echo "$out" | grep -m1 'clause=' | sed -E 's/.*clause=([^ ]+).*scenario=([^|]{0,60}).*/\1 \2/')]"; else res="$res $id:MISSED"; fi
    done
    echo "$name:$res" >> $R/result.$k.txt
  done
  git -C $S/repo checkout -- .
}
for k in $(seq 0 $((W-1))); do worker $k & done
wait
cat $R/result.*.txt | sort
for k in $(seq 0 $((W-1))); do scratch_clean $R/w$k; done
