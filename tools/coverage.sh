#!/bin/bash
# Diagnostic aid, not a check: builds the harness with source-based coverage instrumentation (nightly
# toolchain, which ships llvm-profdata / llvm-cov), runs the quick tier of the given properties (default:
# all) and lists the lines of /repo/src that no explored execution reached. Unreached code is where a
# change could hide from every check; the list is read by hand to decide which scenario family to add.
# usage: tools/coverage.sh [ID ...]      output: /verif/.build/cov/uncovered.txt, summary on stdout
set -u
cd /verif/harness || exit 2
export CARGO_NET_OFFLINE=true
TC=nightly
BIN=$(dirname $(rustup which --toolchain $TC rustc))/../lib/rustlib/x86_64-unknown-linux-gnu/bin
COV=/verif/.build/cov
mkdir -p $COV/prof; rm -f $COV/prof/*.profraw
RUSTFLAGS="-C instrument-coverage" CARGO_TARGET_DIR=$COV/target cargo +$TC build --release --offline 2>&1 | tail -2
H=$COV/target/release/harness
[ -x $H ] || { echo "coverage build failed"; exit 2; }
IDS="${@:-C01 C02 C03 C04 C05 C06 C07 C08 C09 C10 C11 C12 C13 C14 C15 C16 C17 C18 C19 C20}"
# one single-threaded process per property (shared counters make a multi-threaded instrumented run ~20x slower), 8 at a time
for id in $IDS; do
  ( VERIF_DEADLINE_S=3000 VERIF_OUT=$COV/out VERIF_THREADS=1 LLVM_PROFILE_FILE=$COV/prof/$id-%p.profraw $H $id quick 2>&1 | grep -E "tier=|VIOLATION|machinery" | head -3 ) &
  while [ $(jobs -r | wc -l) -ge 8 ]; do sleep 5; done
done
wait
$BIN/llvm-profdata merge -sparse $COV/prof/*.profraw -o $COV/all.profdata || exit 2
$BIN/llvm-cov report $H -instr-profile=$COV/all.profdata --sources /repo/src 2>/dev/null | grep -E "^(/repo|Filename|TOTAL|-)" | sed 's#/repo/src/##' | awk '{printf "%-60s %s %s %s   %s %s %s\n",$1,$2,$3,$4,$8,$9,$10}'
$BIN/llvm-cov show $H -instr-profile=$COV/all.profdata --sources /repo/src --show-line-counts-or-regions=false 2>/dev/null \
  | awk '/^\/repo\/src/ {file=$0} /^ +[0-9]+\| +0\|/ {print file " " $0}' > $COV/uncovered.txt
echo "uncovered lines: $(wc -l < $COV/uncovered.txt) -> $COV/uncovered.txt"
