#!/usr/bin/env python3
"""usage: keep_seed2.py <seed name> <property> <dir with patch.diff demo.rs meta.json> <label> <checks csv> [note]"""
import sys, json, os, shutil
name, prop, src, label, detected = sys.argv[1:6]
note = sys.argv[6] if len(sys.argv) > 6 else ""
d = f"/verif/seeded/{name}"; os.makedirs(d, exist_ok=True)
shutil.copy(f"/tmp/cs/{prop}{label}.patch" if os.path.exists(f"/tmp/cs/{prop}{label}.patch") and os.path.getsize(f"/tmp/cs/{prop}{label}.patch") > 0 else f"{src}/patch.diff", f"{d}/patch.diff"); shutil.copy(f"{src}/demo.rs", f"{d}/demo.rs")
try: agent = json.load(open(f"{src}/meta.json"))
except Exception: agent = {}
rd = lambda f: open(f).read().strip() if os.path.exists(f) else ""
meta = {"property": prop, "origin": "independent sub-agent (rounds 2-9: two changes per property (from round 5 on with a list of already-used sites to avoid)) given only the property text and a scratch worktree",
 "summary": agent.get("summary", ""), "needs": agent.get("needs", ""), "files": agent.get("files", []),
 "demo": f"copy demo.rs to tests/seeded_{prop}.rs in a worktree of /repo; cargo test --offline --features verif --test seeded_{prop}",
 "confirmed_by_me": {"how": "tools/confirm_seed2.sh: fresh scratch worktree of /repo HEAD, demo without and with patch.diff, then the stable baseline (guard off, private network namespace) with the patch",
   "demo_without_change": rd(f"/tmp/cs/{prop}{label}.without.txt"), "demo_with_change": rd(f"/tmp/cs/{prop}{label}.with.txt"), "baseline_with_change": rd(f"/tmp/cs/{prop}{label}.baseline.txt")},
 "detected_by_quick_checks": [x for x in detected.split(",") if x], "note": note}
json.dump(meta, open(f"{d}/meta.json", "w"), indent=1)
print("kept", d, meta["detected_by_quick_checks"])
