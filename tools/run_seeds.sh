#!/bin/bash
# Applies every kept seeded change (seeded/*/patch.diff) to /repo in turn, runs the quick checks listed in its
# meta.json ("detected_by_quick_checks"), expects exit 1 with a VIOLATION line from each, and restores /repo.
# usage: tools/run_seeds.sh [name-substring]
set -u
cd /repo && git diff --quiet || { echo "repo dirty"; exit 2; }
ok=0; bad=0
for d in /verif/seeded/*${1:-}*/; do
  name=$(basename $d)
  checks=$(python3 -c "import json;print(' '.join(json.load(open('$d/meta.json'))['detected_by_quick_checks']))")
  cd /repo && git apply $d/patch.diff || { echo "$name: patch does not apply"; bad=$((bad+1)); continue; }
  res=""
  for id in $checks; do
    cd /verif && out=$(./check $id quick 2>&1); code=$?
    if [ $code -eq 1 ] && echo "$out" | grep -q "^VIOLATION property=$id"; then res="$res $id:detected"; else res="$res $id:MISSED(exit $code)"; bad=$((bad+1)); fi
  done
  cd /repo && git checkout -- .
  echo "$name:$res"
  ok=$((ok+1))
done
echo "seeds run: $ok, problems: $bad"
[ $bad -eq 0 ]
