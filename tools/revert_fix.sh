#!/bin/bash
# usage: revert_fix.sh <commit> <ID>...   temporarily reverts one fix commit in /repo's working tree, runs the quick checks, restores
set -u
cd /repo || exit 2
git diff --quiet || { echo "repo dirty"; exit 2; }
git show "$1" | git apply -R || exit 2
shift
cd /verif
for id in "$@"; do ./check "$id" quick 2>&1 | grep -E "VIOLATION|\] OK|KNOWN|clause|machinery|tier=" | cut -c1-260 | head -6; done
cd /repo && git checkout -- . && git status --short
