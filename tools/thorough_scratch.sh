#!/bin/bash
# Trial of the thorough tiers on a scratch copy (repo worktree + harness copy), so that /repo, /verif/.build and
# /verif/evidence are not touched while other work goes on. usage: thorough_scratch.sh <deadline_s> [ID ...]
set -u
. /verif/tools/scratch_lib.sh
S=/tmp/th; DL=${1:-1200}; shift
scratch_setup $S || exit 2
scratch_build $S || exit 2
IDS="${@:-C16 C19 C15 C14 C18 C08 C07 C09 C10 C17 C05 C13 C12 C20 C01 C02 C04 C06 C11 C03}"
for id in $IDS; do
  /usr/bin/time -f "$id wall %es" env VERIF_DEADLINE_S=$DL bash -c ". /verif/tools/scratch_lib.sh; scratch_run $S $id thorough" > $S/$id.log 2>&1
  grep -E "tier=|VIOLATION|OK|KNOWN|machinery|CAPPED|wall" $S/$id.log | cut -c1-260 | head -6
done
