# sourced by the scratch tools: scratch_setup <dir> creates/refreshes <dir>/repo (worktree of /repo HEAD, clean) and
# <dir>/harness (copy of /verif/harness pointing at it, own target dir); scratch_build <dir>; scratch_run <dir> <ID> [tier]
scratch_setup() {
  local S=$1
  mkdir -p $S/out
  if [ ! -d $S/repo ]; then git -C /repo worktree add --detach $S/repo HEAD >/dev/null 2>&1 || return 2; fi
  git -C $S/repo checkout -- . && git -C $S/repo clean -fdq -- src tests && git -C $S/repo checkout -q --detach $(git -C /repo rev-parse HEAD) || return 2
  rm -rf $S/harness/src; mkdir -p $S/harness/.cargo
  cp -r /verif/harness/src $S/harness/src; cp /verif/harness/Cargo.lock $S/harness/ 2>/dev/null
  sed "s#path = \"/repo\"#path = \"$S/repo\"#" /verif/harness/Cargo.toml > $S/harness/Cargo.toml
  printf '[net]\noffline = true\n[build]\ntarget-dir = "%s/target"\n' $S > $S/harness/.cargo/config.toml
}
scratch_build() { ( cd $1/harness && CARGO_NET_OFFLINE=true cargo build --release --offline > $1/build.log 2>&1 ) || { grep -E "^error" -A 8 $1/build.log | head -30; return 2; }; }
scratch_run() { local S=$1; shift; ( cd $S/out && VERIF_OUT=$S/out $S/target/release/harness "$@" 2>&1 ); }
scratch_clean() { git -C /repo worktree remove --force $1/repo 2>/dev/null; rm -rf $1; git -C /repo worktree prune; }
