#!/bin/bash
# For experiments while /repo must stay untouched (e.g. a thorough run is in progress): applies a patch to a scratch
# worktree of /repo's HEAD, builds a scratch copy of the harness against it and runs the quick checks given.
# Evidence and replays go to the scratch directory, never to /verif.
# usage: try_mutant_scratch.sh <patch> <ID> [ID ...]   |   try_mutant_scratch.sh --clean
set -u
. /verif/tools/scratch_lib.sh
S=/tmp/ms
if [ "${1:-}" = "--clean" ]; then scratch_clean $S; exit 0; fi
PATCH=$1; shift
scratch_setup $S || exit 2
git -C $S/repo apply "$PATCH" || { echo "patch does not apply"; exit 2; }
scratch_build $S || exit 2
for id in "$@"; do scratch_run $S $id quick | grep -E "VIOLATION|OK|KNOWN|clause=|error|machinery|tier=" | cut -c1-300 | head -8; done
git -C $S/repo checkout -- .
