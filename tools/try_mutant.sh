#!/bin/bash
# usage: try_mutant.sh <patch-or-python-script> <ID> [tier]   (applies to /repo, runs check, reverts)
set -u
cd /repo || exit 2
if [[ "$1" == *.py ]]; then python3 "$1" || { git checkout -- .; exit 2; }; else git apply "$1" || exit 2; fi
shift
cd /verif
for id in "$@"; do ./check "$id" quick 2>&1 | grep -E "VIOLATION|OK|KNOWN|clause|error|machinery|tier=" | head -8; done
cd /repo && git checkout -- . && git status --short
