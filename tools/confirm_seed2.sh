#!/bin/bash
# usage: confirm_seed2.sh <ID> <dir with patch.diff demo.rs meta.json> <label>
set -u
ID=$1; SRC=$2; L=$3; W=/tmp/cs/$ID$L
rm -rf $W; mkdir -p /tmp/cs; git -C /repo worktree add --detach $W HEAD >/dev/null 2>&1 || exit 2
cp $SRC/demo.rs $W/tests/seeded_$ID.rs
cd $W
run_demo() { unshare -rn sh -c "ip link set lo up; cargo test --offline --features verif --test seeded_$ID 2>&1" | grep -E "^test result|panicked|error(\[|:)" | head -5; }
run_demo > /tmp/cs/$ID$L.without.txt
git apply $SRC/patch.diff 2>/dev/null || git apply -3 $SRC/patch.diff || { echo "patch does not apply"; cd /; git -C /repo worktree remove --force $W; exit 2; }
git diff HEAD -- src > /tmp/cs/$ID$L.patch; git reset -q
run_demo > /tmp/cs/$ID$L.with.txt
rm -f tests/seeded_$ID.rs
BASE_REPO=$W unshare -rn sh -c "ip link set lo up; BASE_REPO=$W /verif/baseline_off.sh" | tail -4 > /tmp/cs/$ID$L.baseline.txt
echo "without: $(grep 'test result' /tmp/cs/$ID$L.without.txt | head -1)"; echo "with:    $(grep 'test result' /tmp/cs/$ID$L.with.txt | head -1)"; echo "baseline: $(tail -1 /tmp/cs/$ID$L.baseline.txt)"
cd /; git -C /repo worktree remove --force $W
