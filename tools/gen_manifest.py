#!/usr/bin/env python3
"""Generates /verif/MANIFEST.json from the table below (single source of truth for the interface)."""
import json, subprocess
HOOK_COMMITS = subprocess.run(["git","-C","/repo","log","--format=%H %s"],capture_output=True,text=True).stdout.splitlines()
hook_commits = [l.split()[0] for l in HOOK_COMMITS if l.split(' ',1)[1].startswith("verif:")]
LW_NOTE = "Trusted base: the harness (explorer, link world, oracles), the virtual clock/rng seams of feature `verif`, rustc. Coverage is all executions with <= d deviations in the deviation window for the listed scripts/configurations (see evidence.bounds); payload values outside the tag generator and timings outside the menus are not covered."
EW_NOTE = "Trusted base: the harness (explorer, endpoint world, monitors), the virtual clock/rng/socket seams of feature `verif` (an environment model of UDP: datagram boundaries, WouldBlock, no ICMP), rustc. Coverage is all executions with <= d deviations in the deviation window plus the completely enumerated free choice points, for the listed scripts/configurations."
CHECKS = {
 "C01": ("model_checking", "Stateless deviation-bounded exhaustive exploration of two real HalfConnections over a harness-owned lossy/duplicating/reordering/corrupting link; per-channel delivery compared with a FIFO reference model on every execution.", "4.C01", "deviation-bounded stateless model checking of the implementation (link world) against a per-channel FIFO reference model", LW_NOTE),
 "C02": ("model_checking", "Same exploration with fault prefixes followed by a fair network: Reliable-never-skipped on every round, and bounded liveness (all Reliable packets delivered exactly once, nothing pending, send buffer 0) within an a-priori horizon of 300 s virtual time.", "4.C02", "deviation-bounded stateless model checking with fair suffix; bounded liveness", LW_NOTE),
 "C03": ("fault_enumeration", "Every explored execution runs under catch_unwind with a per-call work budget and a wall-clock watchdog: state-relative hostile data/ack/sync frames at every round of a link-world session, every short payload after every type byte and frames with extreme fields against real endpoints in every connection state (an honest client must still be served), all TFRC event sequences of C14, and a cross-section of the other properties' fault explorations.", "4.C03", "exhaustive enumeration of hostile inputs against the real code with panic / work-budget / watchdog oracles", LW_NOTE + " Debug assertions and overflow checks are on, so they count as panics."),
 "C04": ("model_checking", "One packet of every boundary size around the fragment multiples through the real sender/receiver pair with flush budgets that cut it across flushes and per-frame fates (deviation-bounded), plus a lone real receiver fed with every arrival order, duplication pattern, interleaving and every disagreeing fragment at every position.", "4.C04", "deviation-bounded stateless model checking (link world) + exhaustive enumeration of fragment arrival sequences on the real receiver", LW_NOTE),
 "C05": ("model_checking", "Ideal network, all timing/application choices (step spacing, skipped steps, extra flushes, latencies) up to d deviations, on its own scripts and on the scripts/configurations of the shared pool: global delivery order must equal submission order minus TimeSensitive packets.", "4.C05", "deviation-bounded stateless model checking on an ideal link (timing/application choices) against a global FIFO reference model", LW_NOTE),
 "C06": ("fault_enumeration", "Grid of hostile datagram streams (claimed fragment counts up to 65536, ids inside/at the edge/outside the window, never-completing packets, frame id strides, bursts between steps) against a lone real receiver under a counting allocator; sender half by deviation-bounded link-world exploration with a wire-level allocation ledger.", "4.C06", "exhaustive enumeration of a hostile-stream generator grid on the real receiver with a counting allocator + deviation-bounded stateless model checking for the sender half", LW_NOTE),
 "C07": ("model_checking", "Real Server/Client/raw peers on the in-memory network: complete enumeration of the fates of the handshake datagrams plus deviation-bounded exploration of everything else, judged by a nonce-provenance ledger; forged handshake frames are checked differentially against the same run without the forgery.", "4.C07", "explicit enumeration of handshake datagram fates + deviation-bounded stateless model checking of the endpoints against a handshake ledger; differential runs for forgeries", EW_NOTE),
 "C08": ("model_checking", "Deviation-bounded exploration of application calls (send/disconnect/disconnect_now/drop/reconnect), datagram fates and timer-relevant step spacings on real endpoints; every event stream is run through the reference automaton.", "4.C08", "deviation-bounded stateless model checking of the endpoints against a per-connection event automaton", EW_NOTE),
 "C09": ("model_checking", "Deviation-bounded exploration of fates and permanent blackouts around disconnect()/disconnect_now() by either side (also both at once, right after Connect, on a warm connection) with 0-8 queued packets; flush-before-Disconnect, the 22 s termination budget and 'Error(Timeout) only if the peer is unreachable' are checked on every execution.", "4.C09", "deviation-bounded stateless model checking of the endpoints; bounded liveness", EW_NOTE),
 "C10": ("model_checking", "Reference timers (active timeout, 10x2 s retry budgets) stepped alongside every explored execution over a grid of timeouts, keepalive settings, cadences and handshake losses, with deviating step spacings around the deadlines.", "4.C10", "deviation-bounded stateless model checking of the endpoints against reference timers", EW_NOTE),
 "C11": ("model_checking", "Fault phase (blackouts of 5-3000 rounds in one or both directions from any round, lasting latency/cadence changes by a factor 10-50, losses, pauses) then a fair network; probe packets of every mode submitted after the fault must be delivered within an a-priori horizon and pending data must have made progress; the shared pool is run with the bounded-liveness clause (nothing stalled at the horizon).", "4.C11", "deviation-bounded stateless model checking with fair suffix; bounded liveness", LW_NOTE),
 "C12": ("model_checking", "Transmissions per (packet, fragment) read from the wire of every explored execution and compared with the send-mode contract, using the acknowledgements actually handed to the sender.", "4.C12", "deviation-bounded stateless model checking; wire-level transmission monitor", LW_NOTE),
 "C13": ("model_checking", "Every pair of emission instants of every explored execution is checked against the rate bound C*(dt+RTT)+1472 (no rounding allowance), incl. feedback blackouts under backlog and fast step cadences.", "4.C13", "deviation-bounded stateless model checking; all-intervals rate monitor", LW_NOTE),
 "C19": ("fault_enumeration", "Link-world and endpoint-world executions under a checking global allocator (layout of every release compared with its allocation, unknown releases, live bytes after teardown), with the teardown point enumerated over every round and deviation-bounded fates.", "4.C19", "exhaustive enumeration of teardown points and bounded faults under a checking allocator", LW_NOTE),
 "C20": ("model_checking", "send_buffer_size() compared on every round of every explored execution with bounds derived from API calls and the wire; the same quantity at the API of Client and RemoteClient in the endpoint world.", "4.C20", "deviation-bounded stateless model checking against a byte-ledger reference model", LW_NOTE),
 "C14": ("model_checking", "All event sequences up to length 5-6 (reduced alphabet) / 3-4 (full boundary alphabet) over {frame sent, feedback, silence} applied to the real SendRateComp, every step compared with bounds computed independently from the RFC 5348 formulas.", "4.C14", "exhaustive enumeration of event sequences of the real TFRC state machine against an RFC 5348 reference", "Trusted base: harness, reference formulas (x_bps, W_init, s/64), rustc. Values outside the boundary alphabet and sequences longer than the bound are not covered."),
 "C15": ("model_checking", "Twin runs: for every baseline execution (one fate deviation), round and letter of an ack alphabet (wrong nonce, unsent/forgotten ids, bitfields past the log, window bases beyond anything sent, replays of genuine ack frames, a first-time acknowledgement alone vs. merged with a repeated one) the run with the extra frame is compared with the baseline on everything observable about the sender.", "4.C15", "differential (twin-run) stateless model checking on the link world", LW_NOTE),
 "C16": ("model_checking", "Exhaustive input enumeration: round trip over boundary values of every field; Frame::read against an independent reference parser on every short payload per type byte and every single-byte substitution/truncation/extension of sample frames; every <=4-bit error pattern, directly on control frames and for all 11776 positions of a full frame through single-bit syndromes of the real crc::compute.", "4.C16", "exhaustive input enumeration against an independent reference codec; syndrome-based exhaustive CRC weight check", "Trusted base: the reference parser and bitwise CRC in the harness, the affinity argument (checked on the table), rustc."),
 "C17": ("model_checking", "All interleavings of the handshake datagrams of 2-3 clients (complete enumeration; 4 clients deviation-bounded) against servers with small limits, with connections ending by disconnect, drop and timeout; limit ledger on the server's event stream and tracked count at every round.", "4.C17", "explicit enumeration of handshake interleavings on the real Server against a limit ledger", EW_NOTE),
 "C18": ("fault_enumeration", "Every sequence of up to 3-4 raw datagrams from spoofable addresses (valid, repeated, undersized, wrong-version, refused SYNs and stray frames of every type) with waits up to the handshake timeout, against a real Server; byte ledger per address.", "4.C18", "exhaustive enumeration of attacker datagram sequences against the real Server with a byte ledger", EW_NOTE),
}
NA = {}
ALL = ["C%02d" % i for i in range(1, 21)]
checks = []
for pid in ALL:
    if pid not in CHECKS: continue
    cat, text, ref, tech, note = CHECKS[pid]
    checks.append({
        "property_id": pid,
        "quick_cmd": f"./check {pid} quick",
        "thorough_cmd": f"./check {pid} thorough",
        "evidence_file": f"/verif/evidence/{pid}.json",
        "replay_cmd_template": "./check --replay {path}",
        "engine": "harness",
        "level_claimed": {"category": cat, "text": text, "design_ref": "DESIGN.md section " + ref},
        "level_note": note,
        "technique": tech,
    })
na = [{"property_id": p, "reason": NA.get(p, "check not built yet (work in progress; see DESIGN.md section 4 for the plan)")} for p in ALL if p not in CHECKS]
m = {
 "version": 1,
 "setup_cmd": "./setup.sh",
 "hooks": {
   "guard": "cargo feature `verif` of the uflow crate (cfg(feature = \"verif\"))",
   "enable": "the harness depends on uflow = { path = \"/repo\", features = [\"verif\"] }; ./check rebuilds it from /repo's working tree on every invocation",
   "baseline_off_cmd": "/verif/baseline_off.sh",
   "source_commits": hook_commits,
   "add_only": True,
 },
 "engines": [{"name": "harness", "path": "/verif/harness", "serves_properties": [c["property_id"] for c in checks],
              "kind_free_text": "Rust binary: stateless deviation-bounded exhaustive explorer over the real uflow code (virtual clock, seeded rng, in-memory UDP), reference models and monitors per property"}],
 "checks": checks,
 "not_applicable": na,
 "notes": "Exit codes of ./check: 0 held / 1 VIOLATION / 2 machinery failure. Known findings: /verif/KNOWN_FINDINGS.json. Replays: /verif/replays/<ID>/*.json.",
}
json.dump(m, open("/verif/MANIFEST.json", "w"), indent=1)
print("MANIFEST.json written:", len(checks), "checks,", len(na), "not_applicable")
