#!/bin/bash
# Seed regression without touching /repo or /verif/.build: W parallel workers, each with its own scratch worktree of
# /repo's HEAD and its own copy of the harness. For every kept seed the patch is applied in the worker's worktree, the
# harness is rebuilt against it and the quick checks named in the seed's meta.json must exit 1 with a VIOLATION line.
# usage: tools/run_seeds_scratch.sh [name-substring] [workers]      (scratch: /tmp/rs/w<k>; removed at the end)
set -u
. /verif/tools/scratch_lib.sh
SUB=${1:-}; W=${2:-4}; R=/tmp/rs; mkdir -p $R; rm -f $R/result.*.txt
ls -d /verif/seeded/*${SUB}*/ > $R/list.txt
worker() {
  local k=$1 S=$R/w$1
  scratch_setup $S || { echo "worker $k: setup failed"; return; }
  sed -n "$((k+1))~${W}p" $R/list.txt | while read d; do
    name=$(basename $d)
    checks=$(python3 -c "import json;print(' '.join(json.load(open('$d/meta.json'))['detected_by_quick_checks']))")
    git -C $S/repo checkout -- . ; git -C $S/repo apply $d/patch.diff || { echo "$name: PATCH-DOES-NOT-APPLY" >> $R/result.$k.txt; continue; }
    scratch_build $S || { echo "$name: BUILD-FAILED" >> $R/result.$k.txt; continue; }
    res=""
    for id in $checks; do
      out=$(VERIF_THREADS=$((16 / W)) scratch_run $S $id quick); code=$?
      if echo "$out" | grep -q "^VIOLATION property=$id"; then res="$res $id:detected"; else res="$res $id:MISSED"; fi
    done
    echo "$name:$res" >> $R/result.$k.txt
  done
  git -C $S/repo checkout -- .
}
for k in $(seq 0 $((W-1))); do worker $k & done
wait
cat $R/result.*.txt | sort
echo "seeds: $(wc -l < $R/list.txt), reported: $(cat $R/result.*.txt | wc -l), problems: $(cat $R/result.*.txt | grep -cE 'MISSED|FAILED|APPLY')"
for k in $(seq 0 $((W-1))); do scratch_clean $R/w$k; done
