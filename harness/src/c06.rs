//! C06: receiver memory bound (hostile streams) and sender-side respect of the peer's limit.

use crate::explore::*;
use crate::lw::*;
use uflow::verif::frame::Frame;

pub fn ceil_frag(n: usize) -> usize { (n + FRAG - 1) / FRAG * FRAG }

/// Sender half, judged from the wire: the fragment-rounded bytes of packets that have an id on the
/// wire and are not yet covered by a packet-window base handed to the sender never exceed the
/// peer's advertised limit (rounded up to a fragment), their number never exceeds the window, and
/// the receiver never had to discard a packet for lack of memory.
pub fn oracle_sender_alloc(cfg: &LwCfg, _si: &ScriptInfo, tr: &Trace) -> Option<Violation> {
    for side in 0..2 {
        let limit = ceil_frag(cfg.rx_alloc[1 - side]);
        let start = cfg.pbase[side];
        let rxs: Vec<&Rx> = tr.rxs.iter().filter(|r| r.side == side && r.parsed).collect();
        let mut ri = 0; let mut released = 0u32;
        let mut pk: std::collections::BTreeMap<u32, usize> = Default::default();
        for e in tr.ems.iter().filter(|e| e.side == side) {
            if let Some(Frame::DataFrame(df)) = &e.frame {
                // acknowledgements processed in an earlier step of this side precede this emission
                while ri < rxs.len() && rxs[ri].step_no < e.step_no {
                    if let Some(Frame::AckFrame(af)) = &tr.ems[rxs[ri].em].frame {
                        let d = af.packet_window_base_id.wrapping_sub(start) & 0xFFFFF;
                        if d < 0x80000 { released = released.max(d); }
                    }
                    ri += 1;
                }
                let mut new_id = false;
                for dg in df.datagrams.iter() {
                    let rel = dg.sequence_id.wrapping_sub(start) & 0xFFFFF;
                    let sz = if dg.fragment_id_last > 0 { (dg.fragment_id_last as usize + 1) * FRAG } else { dg.data.len() };
                    if pk.insert(rel, sz).is_none() { new_id = true; }
                }
                if new_id {
                    let (mut total, mut count) = (0usize, 0u32);
                    for (_, sz) in pk.range(released..) { total += sz; count += 1; }
                    if total > limit {
                        return Some(viol("C06.sender-alloc", "C06.sender-alloc".into(), format!("side {} round {}: {} fragment-rounded bytes of packets are on the wire and not covered by any packet window base the sender has processed ({} packets), but the peer advertised max_receive_alloc {} (rounded {})", side, e.round, total, count, cfg.rx_alloc[1 - side], limit)));
                    }
                    if count > cfg.pwin.min(4096) {
                        return Some(viol("C06.sender-window", "C06.sender-window".into(), format!("side {} round {}: {} packets outstanding, window {}", side, e.round, count, cfg.pwin)));
                    }
                }
            }
        }
        for o in tr.obs.iter().filter(|o| o.side == side) {
            if o.probe.rx_dud_count != 0 {
                return Some(viol("C06.dud", "C06.dud".into(), format!("side {} round {}: the receiver discarded {} packet(s) for lack of receive memory although the peer is a uflow sender", side, o.round, o.probe.rx_dud_count)));
            }
        }
    }
    None
}
