//! C06: receiver memory bound (hostile streams) and sender-side respect of the peer's limit.

use crate::explore::*;
use crate::lw::*;
use uflow::verif::frame::Frame;

pub fn ceil_frag(n: usize) -> usize { (n + FRAG - 1) / FRAG * FRAG }

/// Sender half, judged from the wire: the fragment-rounded bytes of packets that have an id on the
/// wire and are not yet covered by a packet-window base handed to the sender never exceed the
/// peer's advertised limit (rounded up to a fragment), their number never exceeds the window, and
/// the receiver never had to discard a packet for lack of memory.
pub fn oracle_sender_alloc(cfg: &LwCfg, _si: &ScriptInfo, tr: &Trace) -> Option<Violation> {
    for side in 0..2 {
        let limit = ceil_frag(cfg.rx_alloc[1 - side]);
        let start = cfg.pbase[side];
        let rxs: Vec<&Rx> = tr.rxs.iter().filter(|r| r.side == side && r.parsed).collect();
        let mut ri = 0; let mut released = 0u32;
        let mut pk: std::collections::BTreeMap<u32, usize> = Default::default();
        for e in tr.ems.iter().filter(|e| e.side == side) {
            if let Some(Frame::DataFrame(df)) = &e.frame {
                // acknowledgements processed in an earlier step of this side precede this emission
                while ri < rxs.len() && rxs[ri].step_no < e.step_no {
                    if let Some(Frame::AckFrame(af)) = &tr.ems[rxs[ri].em].frame {
                        let d = af.packet_window_base_id.wrapping_sub(start) & 0xFFFFF;
                        if d < 0x80000 { released = released.max(d); }
                    }
                    ri += 1;
                }
                let mut new_id = false;
                for dg in df.datagrams.iter() {
                    let rel = dg.sequence_id.wrapping_sub(start) & 0xFFFFF;
                    let sz = if dg.fragment_id_last > 0 { (dg.fragment_id_last as usize + 1) * FRAG } else { dg.data.len() };
                    if pk.insert(rel, sz).is_none() { new_id = true; }
                }
                if new_id {
                    let (mut total, mut count) = (0usize, 0u32);
                    for (_, sz) in pk.range(released..) { total += sz; count += 1; }
                    if total > limit {
                        return Some(viol("C06.sender-alloc", "C06.sender-alloc".into(), format!("side {} round {}: {} fragment-rounded bytes of packets are on the wire and not covered by any packet window base the sender has processed ({} packets), but the peer advertised max_receive_alloc {} (rounded {})", side, e.round, total, count, cfg.rx_alloc[1 - side], limit)));
                    }
                    if count > cfg.pwin.min(4096) {
                        return Some(viol("C06.sender-window", "C06.sender-window".into(), format!("side {} round {}: {} packets outstanding, window {}", side, e.round, count, cfg.pwin)));
                    }
                }
            }
        }
        // receiver ledger: the memory this side accounts for received packet data must belong to packets inside its
        // receive window of which at least one fragment was handed to it
        {
            let mut got: std::collections::HashMap<u32, usize> = Default::default();
            let mut ri = 0usize;
            let rx: Vec<&Rx> = tr.rxs.iter().filter(|r| r.side == side && r.parsed).collect();
            for o in tr.obs.iter().filter(|o| o.side == side) {
                while ri < rx.len() && rx[ri].round <= o.round {
                    if let Some(Frame::DataFrame(df)) = &tr.ems[rx[ri].em].frame { for dg in df.datagrams.iter() { let sz = if dg.fragment_id_last > 0 { (dg.fragment_id_last as usize + 1) * FRAG } else { dg.data.len() }; got.insert(dg.sequence_id, sz); } }
                    ri += 1;
                }
                let base = o.probe.rx_packet_base;
                let expected: usize = got.iter().filter(|(id, _)| (id.wrapping_sub(base) & 0xFFFFF) < cfg.pwin).map(|(_, sz)| *sz).sum();
                if o.probe.rx_alloc > expected {
                    return Some(viol("C06.rx-ledger", "C06.rx-ledger".into(), format!("side {} round {}: the receiver accounts {} bytes of receive memory, but the packets inside its window [{:x}, +{}) of which it has been handed any fragment amount to {} bytes: memory is still held for packets the window has passed", side, o.round, o.probe.rx_alloc, base, cfg.pwin, expected)));
                }
            }
        }
        for o in tr.obs.iter().filter(|o| o.side == side) {
            if o.probe.rx_dud_count != 0 {
                return Some(viol("C06.dud", "C06.dud".into(), format!("side {} round {}: the receiver discarded {} packet(s) for lack of receive memory although the peer is a uflow sender", side, o.round, o.probe.rx_dud_count)));
            }
        }
    }
    None
}

// ------------------------------------------------------------------------------------------------
// (a) hostile datagram streams against a lone receiving HalfConnection under the counting allocator
// ------------------------------------------------------------------------------------------------

use crate::report::Summary;
use crate::sweep::*;
use crate::PropRun;
use serde_json::json;
use uflow::verif::frame::{DataFrame, Datagram, SyncFrame};
use uflow::verif::*;

#[derive(Clone, Copy, Debug)]
pub struct Stream {
    pub limit: usize,
    /// claimed number of fragments per packet
    pub nfrag: usize,
    /// 0: ids walk inside the window; 1: ids at the window edge; 2: ids outside the window; 3: one fragment each of many packets then sync frames push the window; 4: ids walk inside the window and the only fragment ever sent of each packet is its last one, 0 or 1 bytes long; 5: complete 2-3 fragment packets behind a Reliable packet that never arrives
    pub walk: u8,
    /// frame id stride
    pub stride: u32,
    /// frames arriving between two calls of step(): 0 = 1, 1 = 50, 2 = 5000 (the API processes frames only inside step(), which flushes first)
    pub cadence: u8,
    /// time between steps: 0 = 1 ms, 1 = 20 ms, 2 = 1 s
    pub flush: u8,
    pub frames: usize,
}

pub fn stream_name(s: &Stream) -> String { format!("case:stream:{}:{}:{}:{}:{}:{}:{}", s.limit, s.nfrag, s.walk, s.stride, s.cadence, s.flush, s.frames) }
pub fn stream_parse(c: &str) -> Option<Stream> { let f: Vec<&str> = c.strip_prefix("case:stream:")?.split(':').collect(); Some(Stream { limit: f[0].parse().ok()?, nfrag: f[1].parse().ok()?, walk: f[2].parse().ok()?, stride: f[3].parse().ok()?, cadence: f[4].parse().ok()?, flush: f[5].parse().ok()?, frames: f[6].parse().ok()? }) }

/// Allowance for state other than packet data: acknowledgement groups for at most two frame windows
/// (12 B each, VecDeque may hold twice its length), one reassembly bitfield word per 64 claimed
/// fragments of the packets that fit the limit, the frame being parsed, and 64 kB of slack.
pub fn allowance(limit: usize) -> usize { ceil_frag(limit) + 4 * 4096 * 12 + (ceil_frag(limit) / FRAG + 1) * 64 + 2 * 1472 + 65_536 }

pub fn run_stream(s: &Stream) -> (Vec<Violation>, u64, Option<String>) {
    use crate::alloc;
    let r = guarded(|| {
        let mut v: Vec<Violation> = Vec::new();
        set_time_ms(0); seed(5); set_fuel(u64::MAX);
        let cfg = LwCfg { pwin: 4096, fwin: 4096, pbase: [0, 0xFFFF0], fbase: [0, 0xFFFF_FF00], rx_alloc: [s.limit, s.limit], ..LwCfg::small() };
        let junk = vec![0x42u8; FRAG];
        alloc::reset();
        alloc::set_tracking(true);
        let mut hc = HalfConnection::new(cfg.half(0));
        let baseline = alloc::live();
        let limit_c = ceil_frag(s.limit) as isize;
        let allow = allowance(s.limit) as isize;
        let mut now = 0u64; let mut fid = 0xFFFF_FF00u32; let mut pid_off = 0u32; let mut worst = 0isize; let mut worst_alloc = 0usize; let mut worst_ackq = 0usize; let mut delivered = 0u64;
        let mut h = 0xcbf29ce484222325u64;
        let burst = [1usize, 50, 5000][s.cadence as usize % 3];
        let dt = [1u64, 20, 1000][s.flush as usize % 3];
        let mut facts: Vec<(u8, usize, isize, usize, usize)> = Vec::new(); // (kind, frame no, live, rx_alloc, ackq)
        for k in 0..s.frames {
            if k % burst == 0 {
                // one application round as Client::step / Server::step perform it: flush, (frames), step, receive
                now += dt; set_time_ms(now);
                set_fuel(2_000_000);
                let mut fs = FS(vec![]); hc.flush(&mut fs);
                drop(fs);
            }
            let base = hc.verif_probe().rx_packet_base;
            // walk 5: complete 2-3 fragment packets queue up behind a Reliable packet that never arrives (ids base+1, base+2, ...)
            // walk 6: the same with single-fragment packets, after a small packet far ahead (base+1000) on another channel has been delivered
            // (that channel's base is then ahead of everything parked); every parked packet is followed by a fragment that carries the same
            // sequence id but claims the other channel - a datagram the receiver has to ignore, whatever it says
            if s.walk == 5 || s.walk == 6 {
                let nf = if s.walk == 6 { 1 } else { s.nfrag.clamp(2, 3) };
                let pk = if s.walk == 6 { (k / 2) as u32 % 999 + 1 } else { (k / nf) as u32 % 4095 + 1 };
                let dg = if s.walk == 6 && k == 0 { Datagram { sequence_id: (base + 1000) & 0xFFFFF, channel_id: 1, window_parent_lead: 1000, channel_parent_lead: 0, fragment_id: 0, fragment_id_last: 0, data: junk[..1].into() } }
                    else if s.walk == 6 && k % 2 == 1 { Datagram { sequence_id: (base + pk) & 0xFFFFF, channel_id: 1, window_parent_lead: pk as u16, channel_parent_lead: 0, fragment_id: (s.nfrag.min(3) - 1) as u16, fragment_id_last: (s.nfrag.min(3) - 1) as u16, data: junk[..1].into() } }
                    else { Datagram { sequence_id: (base + pk) & 0xFFFFF, channel_id: 0, window_parent_lead: pk as u16, channel_parent_lead: pk as u16, fragment_id: (k % nf) as u16, fragment_id_last: (nf - 1) as u16, data: junk[..FRAG].into() } };
                set_fuel(2_000_000);
                hc.handle_data_frame(DataFrame { sequence_id: fid, nonce: k % 2 == 0, datagrams: vec![dg] });
                fid = fid.wrapping_add(s.stride);
                if k % burst == burst - 1 { hc.step(); let mut ps = PS(vec![]); hc.receive(&mut ps); delivered += ps.0.len() as u64; drop(ps); }
                set_fuel(u64::MAX);
                let p = hc.verif_probe();
                let live = alloc::live() - baseline;
                if live > worst { worst = live; }
                worst_alloc = worst_alloc.max(p.rx_alloc); worst_ackq = worst_ackq.max(p.ack_queue_len);
                if p.rx_alloc as isize > limit_c && !facts.iter().any(|f| f.0 == 0) { alloc::set_tracking(false); facts.push((0, k + 1, live, p.rx_alloc, p.ack_queue_len)); alloc::set_tracking(true); }
                if live > allow && !facts.iter().any(|f| f.0 == 1) { alloc::set_tracking(false); facts.push((1, k + 1, live, p.rx_alloc, p.ack_queue_len)); alloc::set_tracking(true); }
                if k % 97 == 0 { h = fnv(h, p.rx_alloc as u64); h = fnv(h, p.ack_queue_len as u64); }
                continue;
            }
            let pid = match s.walk { 0 => (base + pid_off % 4096) & 0xFFFFF, 1 => (base + 4095 - (pid_off % 2)) & 0xFFFFF, 2 => (base + 4096 + pid_off % 7) & 0xFFFFF, _ => (base + pid_off % 4096) & 0xFFFFF };
            pid_off = pid_off.wrapping_add(1);
            let fragment_id = if s.walk == 3 { 0 } else if s.walk == 4 { (s.nfrag - 1) as u16 } else { (k % s.nfrag.max(1)).min(s.nfrag.saturating_sub(2)) as u16 }; // never the last fragment: packets never complete
            let last = (s.nfrag - 1) as u16;
            let len = if s.nfrag == 1 { (k * 37) % (FRAG + 1) } else if s.walk == 4 { k % 2 } else { FRAG };
            let dg = Datagram { sequence_id: pid, channel_id: (k % 64) as u8, window_parent_lead: 0, channel_parent_lead: 0, fragment_id: if s.nfrag == 1 { 0 } else { fragment_id }, fragment_id_last: last, data: junk[..len].into() };
            set_fuel(2_000_000);
            hc.handle_data_frame(DataFrame { sequence_id: fid, nonce: k % 2 == 0, datagrams: vec![dg] });
            fid = fid.wrapping_add(s.stride);
            if s.walk == 3 && k % 64 == 63 { hc.handle_sync_frame(SyncFrame { next_frame_id: Some(fid), next_packet_id: Some((base + 32) & 0xFFFFF) }); }
            if k % burst == burst - 1 { hc.step(); let mut ps = PS(vec![]); hc.receive(&mut ps); delivered += ps.0.len() as u64; drop(ps); }
            set_fuel(u64::MAX);
            let p = hc.verif_probe();
            let live = alloc::live() - baseline;
            if live > worst { worst = live; }
            worst_alloc = worst_alloc.max(p.rx_alloc); worst_ackq = worst_ackq.max(p.ack_queue_len);
            if p.rx_alloc as isize > limit_c && !facts.iter().any(|f| f.0 == 0) { alloc::set_tracking(false); facts.push((0, k + 1, live, p.rx_alloc, p.ack_queue_len)); alloc::set_tracking(true); }
            if live > allow && !facts.iter().any(|f| f.0 == 1) { alloc::set_tracking(false); facts.push((1, k + 1, live, p.rx_alloc, p.ack_queue_len)); alloc::set_tracking(true); }
            if p.ack_queue_len > 2 * 4096 && !facts.iter().any(|f| f.0 == 2) { alloc::set_tracking(false); facts.push((2, k + 1, live, p.rx_alloc, p.ack_queue_len)); alloc::set_tracking(true); }
            if k % 97 == 0 { h = fnv(h, p.rx_alloc as u64); h = fnv(h, p.ack_queue_len as u64); }
        }
        alloc::set_tracking(false);
        for (kind, k, live, rxa, ackq) in facts {
            match kind {
                0 => v.push(viol("C06.rx-alloc", "C06.rx-alloc".into(), format!("after {} hostile frames the receive allocation counter is {} but max_receive_alloc is {} (rounded {})", k, rxa, s.limit, limit_c))),
                1 => v.push(viol("C06.heap", format!("C06.heap:{}", if ackq > 2 * 4096 { "ack-queue" } else { "other" }), format!("after {} hostile frames the connection holds {} heap bytes above its empty size; max_receive_alloc {} (rounded {}) plus the fixed allowance is {} (receive alloc counter {}, acknowledgement groups queued {})", k, live, s.limit, limit_c, allow, rxa, ackq))),
                _ => v.push(viol("C06.ack-queue", "C06.ack-queue".into(), format!("after {} hostile frames {} acknowledgement groups are queued; two frame windows hold at most 8192 frames", k, ackq))),
            }
        }
        alloc::set_tracking(true);
        h = fnv(h, worst as u64 >> 6); h = fnv(h, delivered);
        drop(hc);
        alloc::set_tracking(false);
        let rep = alloc::report();
        if rep.live_bytes != 0 { v.push(viol("C06.leak", "C06.leak".into(), format!("{} bytes still allocated after dropping the connection", rep.live_bytes))); }
        (v, h, (worst, worst_alloc, worst_ackq))
    });
    crate::alloc::set_tracking(false);
    set_fuel(u64::MAX);
    match r {
        Ok((v, h, _)) => (v, h, None),
        Err(p) => (vec![], 0xDEAD, Some(p)),
    }
}

pub fn streams(quick: bool) -> Vec<Stream> {
    let mut out = Vec::new();
    // limits that are exact multiples of the fragment size are a boundary of the rounding (one fragment more must not fit)
    let limits: &[usize] = if quick { &[1, 1448, 4000, 1_000_000] } else { &[1, 1448, 2896, 4000, 5 * 1448, 1_000_000] };
    let nfrags: &[usize] = &[1, 2, 3, 691, 65536];
    let strides: &[u32] = if quick { &[1, 33] } else { &[1, 31, 32, 33] };
    for &limit in limits { for &nfrag in nfrags { for walk in 0..7u8 { for &stride in strides { for cadence in 0..3u8 { for flush in 0..3u8 {
        if quick && (walk == 2 && stride != 1) { continue; }
        if walk == 6 && (nfrag > 3 || (quick && stride != 1)) { continue; }
        let frames = if quick { 3 * 4096 + 100 } else { 10 * 4096 };
        out.push(Stream { limit, nfrag, walk, stride, cadence, flush, frames });
    } } } } } }
    out
}

pub fn build(quick: bool) -> PropRun {
    let mut units: Vec<Unit> = Vec::new();
    for s in streams(quick) {
        units.push(Box::new(move |acc: &mut Acc| {
            let (v, h, p) = run_stream(&s);
            acc.evals += 1; acc.transitions += s.frames as u64; acc.outcomes.insert(h);
            if let Some(p) = p.as_ref() { acc.panics += 1; if p.contains("assembly_window") && p.contains("with overflow") { acc.violation(stream_name(&s), viol("C06.receiver-accounting", "C06.receiver-accounting".into(), format!("the receiver's allocation counter over/underflowed: {}", p))); } }
            for x in v { acc.violation(stream_name(&s), x); }
            if s.walk == 0 && s.stride == 33 && s.cadence == 0 && s.flush == 1 { acc.sample(format!("{:?}", s)); }
        }));
    }
    // (b) sender half: link-world executions with the wire-level allocation ledger
    use crate::lwprops::*;
    use uflow::SendMode::*;
    let mut scs: Vec<Scenario> = crate::pool::lw_pool(quick).into_iter().map(|mut s| { s.oracles = O_C06B; s.tag = format!("C06.pool.{}", s.tag); lw_scenario(s) }).collect();
    let scripts: Vec<(&str, Vec<Op>, LwCfg)> = vec![
        ("alloc-3-fragments", (0..6).map(|i| send(i / 3, 0, (i % 2) as u8, if i % 2 == 0 { Reliable } else { Unreliable }, [2000, 1448, 1449, 100, 2897, 1][i])).collect(), LwCfg { pwin: 8, fwin: 8, rx_alloc: [3 * FRAG, 3 * FRAG], ..LwCfg::small() }),
        ("alloc-1-fragment", (0..5).map(|i| send(0, 0, 0, MODES[i % 4], [1448, 700, 748, 1, 1447][i])).collect(), LwCfg { pwin: 8, fwin: 8, rx_alloc: [1, 1], ..LwCfg::small() }),
        ("alloc-exact-fit", vec![send(0, 0, 0, Reliable, 4344), send(0, 0, 1, Persistent, 10), send(1, 0, 0, Unreliable, 1448), send(1, 0, 1, Reliable, 2896)], LwCfg { pwin: 4, fwin: 8, rx_alloc: [4344, 4344], ..LwCfg::small() }),
        ("window-4096-many-small", (0..40).map(|i| send(i / 20, 0, (i % 3) as u8, MODES[i % 3], 10 + i)).collect(), LwCfg { pwin: 4096, fwin: 4096, rx_alloc: [200, 200], ..LwCfg::small() }),
        ("partial-then-idle-then-full", vec![send(0, 0, 0, Unreliable, 3000), send(0, 0, 1, TimeSensitive, 1400), send(200, 0, 0, Reliable, 4344), send(201, 0, 1, Unreliable, 1448)], LwCfg { pwin: 4, fwin: 8, rx_alloc: [4344, 4344], ..LwCfg::small() }),
        ("partial-then-idle-then-full-w4096", vec![send(0, 0, 0, Unreliable, 4000), send(1, 0, 0, Unreliable, 2000), send(250, 0, 0, Reliable, 5792), send(251, 0, 1, Reliable, 1)], LwCfg { pwin: 4096, fwin: 4096, rx_alloc: [5792, 5792], ..LwCfg::small() }),
        ("both-directions", (0..8).map(|i| send(i / 4, i % 2, 0, if i % 3 == 0 { Reliable } else { Unreliable }, 1000 + 300 * i)).collect(), LwCfg { pwin: 4, fwin: 8, rx_alloc: [3000, 5000], ..LwCfg::small() }),
    ];
    for (name, ops, cfg) in scripts {
        let si = std::sync::Arc::new(ScriptInfo::new(ops));
        let dev = if quick { 6 } else { 9 };
        let env = LwEnv { fates: &[Fate::Deliver, Fate::Drop, Fate::Dup, Fate::Delay3], deltas: &[20, 0, 2000], dev_rounds: dev, dev_start: 0, max_rounds: dev + crate::props::T_LIVE_ROUNDS, skip_choice: !quick, flush_choice: false, blackouts: &[],
                          stop_when_idle: true, fair_delta: 20, slow_after: usize::MAX, slow_delta: 250, fuel: 2_000_000, shifts: &[] };
        scs.push(lw_scenario(LwSpec { tag: format!("C06.sender.{}", name), cfg, script: si, env, d: if quick { 2 } else { 3 }, oracles: O_C06B | O_C01 | O_LIVE, probe_round: 0 }));
    }
    PropRun { level: "fault_enumeration", scenarios: scs, units, replay_case: Some(replay_case), summary: Summary {
        rule: "(a) every stream of the generator grid (receiver limit x claimed fragment count x id walk x frame id stride x frames per application round x step spacing; every round is flush, frames, step, receive as Client::step/Server::step perform it), 3-10 windows long, is fed to a lone real receiving HalfConnection under a counting allocator: receive-alloc counter <= limit rounded to a fragment, heap growth above the empty connection <= limit + fixed allowance, acknowledgement queue <= 2 windows, nothing leaked; (b) deviation-bounded link-world exploration with small limits: bytes outstanding on the wire never exceed the peer's limit, never more than a window of packets, no packet discarded for lack of memory; distinct = distinct outcome hash".into(),
        bounds: json!({"limits": if quick { vec![1, 1448, 4000, 1_000_000] } else { vec![1, 1448, 2896, 4000, 7240, 1_000_000] }, "claimed_fragments": [1, 2, 3, 691, 65536], "id_walks": ["inside window", "window edge", "outside window", "one fragment each + sync frames", "short last fragment first", "complete multi-fragment packets behind a Reliable packet that never arrives"], "frame_id_strides": [1, 31, 32, 33], "frames_between_steps": [1, 50, 5000], "step_spacing_ms": [1, 20, 1000], "frames_per_stream": if quick { 3 * 4096 + 100 } else { 10 * 4096 }, "sender_d": if quick { 2 } else { 3 }}),
        assumptions: vec!["heap allowance above max_receive_alloc: 4*4096 ack groups of 12 B, 64 B per fragment of limit, two frames, 64 kB slack - a closed formula, not measured; streams are several windows long so that any structure growing with the stream exceeds it".into(),
                          "the allocator counts requested sizes (not allocator-internal rounding) of blocks obtained by the thread while the connection exists".into()],
        witness_names: WITNESSES.to_vec(), extra: json!({}), exhaustive: true } }
}

pub fn replay_case(case: &str) -> Vec<Violation> {
    match stream_parse(case) { Some(s) => { println!("{:?}", s); let (v, _, p) = run_stream(&s); if let Some(p) = p { println!("PANIC inside uflow: {}", p); } v } None => vec![] }
}
