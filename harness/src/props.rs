//! Scenario sets, alphabets and bounds per property.

use crate::explore::*;
use crate::lw::*;
use crate::lwprops::*;
use crate::report::Summary;
use crate::sweep::{Acc, Unit};
use crate::PropRun;
use serde_json::json;
use std::sync::Arc;
use uflow::SendMode;

/// For properties that run scenarios of both worlds: endpoint-world witnesses are reported from bit 32 on.
fn mixed(mut s: Summary) -> Summary { s.witness_names = crate::eprops::mixed_witness_names(); s }

fn lw_summary(rule: &str, bounds: serde_json::Value, assumptions: &[&str]) -> Summary {
    Summary {
        rule: rule.to_string(), bounds, assumptions: assumptions.iter().map(|s| s.to_string()).collect(),
        witness_names: WITNESSES.to_vec(), extra: json!({}), exhaustive: true,
    }
}

const A_LW: &[&str] = &[
    "link world: two real HalfConnections with mirrored configurations driven in the order Client::step/Server::step use (flush, handle frames, step, receive) under a virtual clock",
    "coverage = all executions with at most d deviations (non-default answers) placed in the first dev_rounds rounds, for the listed scripts and configurations; nothing is sampled",
    "payload bytes come from a fixed generator (tags), sizes from boundary sets; frame corruption fate flips 4 bits of a frame (<=4-bit patterns in general are C16's job)",
    "build profile: release with debug-assertions and overflow-checks on",
];

pub fn build(property: &str, tier: &str) -> Option<PropRun> {
    let quick = tier == "quick";
    match property {
        "C01" => Some(c01(quick)),
        "C02" => Some(c02(quick)),
        "C05" => Some(c05(quick)),
        "C12" => Some(c12(quick)),
        "C13" => Some(c13(quick)),
        "C20" => Some(c20(quick)),
        "C16" => Some(crate::c16::build(quick)),
        "C11" => Some(c11(quick)),
        "C03" => Some(crate::c03::build(quick)),
        "C14" => Some(crate::c14::build(quick)),
        "C04" => Some(crate::c04::build(quick)),
        "C19" => Some(crate::c19::build(quick)),
        "C15" => Some(crate::c15::build(quick)),
        "C06" => Some(crate::c06::build(quick)),
        "C07" => Some(crate::props_ew::c07(quick)),
        "C08" => Some(crate::props_ew::c08(quick)),
        "C09" => Some(crate::props_ew::c09(quick)),
        "C10" => Some(crate::props_ew::c10(quick)),
        "C17" => Some(crate::props_ew::c17(quick)),
        "C18" => Some(crate::props_ew::c18(quick)),
        _ => None,
    }
}

/// The shared link-world pool run with this property's oracles.
pub fn from_pool(quick: bool, prop: &str, mask: u32) -> Vec<Scenario> {
    crate::pool::lw_pool(quick).into_iter().map(|mut s| { s.oracles = mask; s.tag = format!("{}.pool.{}", prop, s.tag); lw_scenario(s) }).collect()
}

fn spec(tag: &str, cfg: &LwCfg, script: &Arc<ScriptInfo>, env: LwEnv, d: usize, oracles: u32) -> Scenario {
    lw_scenario(LwSpec { tag: tag.to_string(), cfg: cfg.clone(), script: script.clone(), env, d, oracles, probe_round: 0 })
}

fn scripts_upto(n_max: usize, chans: &[u8], modes: &[SendMode], sizes: &[usize], spreads: &[usize]) -> Vec<Arc<ScriptInfo>> {
    let mut v = Vec::new();
    for n in 1..=n_max { for &sp in spreads { if n == 1 && sp != spreads[0] { continue; } for ops in all_scripts(n, chans, modes, sizes, sp) { v.push(Arc::new(ScriptInfo::new(ops))); } } }
    v
}

// ------------------------------------------------------------------------------------------------
fn c01(quick: bool) -> PropRun {
    let oracles = O_C01 | O_C02S | O_FSIZE;
    let grid = cfg_grid(quick);
    let (d_small, n_small, d_col) = (2, 2, if quick { 2 } else { 3 });
    let mut scs = from_pool(quick, "C01", oracles);
    if !quick {
        // all 3-packet scripts over the full alphabet, cold start, d = 2
        let three_full = scripts_upto(3, &[0, 1], &MODES, &[0, 40, 2000], &[0, 1]);
        for s in three_full.iter().filter(|s| s.ops.len() == 3) { scs.push(spec("C01.all3", &grid[0], s, env_faulty(6, 90), 2, oracles)); }
    }
    // (iii) complete enumeration (d = unbounded) for 1-2 packet scripts over a small fate menu, short window
    if !quick {
        let tiny = scripts_upto(2, &[0], &[SendMode::Reliable, SendMode::Unreliable], &[40, 2000], &[0]);
        for s in tiny.iter() {
            let env = LwEnv { fates: FATES_BASIC, deltas: &[20], dev_rounds: 4, dev_start: 0, max_rounds: 60, skip_choice: false, ..env_faulty(4, 60) };
            scs.push(spec("C01.full", &grid[0], s, env, 99, oracles));
        }
    }
    PropRun { level: "model_checking", scenarios: scs, units: crate::rxsweep::units(quick, "C01"), replay_case: Some(crate::rxsweep::replay_case), summary: lw_summary(
        "deviation-bounded exhaustive exploration of the real HalfConnection pair; a case is one execution (script x configuration x choice vector); distinct = distinct observable outcome (delivery sequence, frame count, final state)",
        json!({"d_all_short_scripts": d_small, "short_script_len": n_small, "d_collision_scripts": d_col, "fates": "deliver/drop/dup/dup-late/delay1/delay3/corrupt", "deltas_ms": DELTAS_STD, "windows": if quick { "4,4096" } else { "2,4,8,4096" }, "wrap": "packet ids start 0, 2^20-2, 2^20-w+1; frame ids 0, 2^32-2, 2^32-w+1"}),
        A_LW) }
}

pub const FATES_BASIC_PLUS: &[Fate] = &[Fate::Deliver, Fate::Drop, Fate::Dup, Fate::DupLate, Fate::Delay1, Fate::Delay3];

// ------------------------------------------------------------------------------------------------
pub const T_LIVE_ROUNDS: usize = 15_000;

fn env_live(dev_rounds: usize) -> LwEnv {
    // fair phase: constant 20 ms cadence up to T_live = 300 s of virtual time (executions stop as soon as both sides are idle)
    LwEnv { fates: FATES_BASIC_PLUS, deltas: &[20, 0, 2000, 10_000], dev_rounds, dev_start: 0, max_rounds: dev_rounds + T_LIVE_ROUNDS, skip_choice: false, flush_choice: false,
            blackouts: &[], stop_when_idle: true, fair_delta: 20, slow_after: usize::MAX, slow_delta: 250, fuel: 2_000_000, shifts: &[] }
}

fn mixed_scripts() -> Vec<(&'static str, Vec<Op>)> {
    use SendMode::*;
    vec![
        ("rel-single", vec![send(0, 0, 0, Reliable, 100)]),
        ("rel-frag5", vec![send(0, 0, 0, Reliable, 6000)]),
        ("rel-mixed-modes", vec![send(0, 0, 0, Unreliable, 30), send(0, 0, 0, Reliable, 2000), send(0, 0, 1, TimeSensitive, 31), send(1, 0, 0, Persistent, 1500), send(1, 0, 1, Reliable, 33)]),
        ("rel-window-exhaust", (0..9).map(|i| send(0, 0, (i % 2) as u8, if i % 2 == 0 { Reliable } else { Unreliable }, 60 + i)).collect()),
        ("rel-both-directions", vec![send(0, 0, 0, Reliable, 1000), send(0, 1, 0, Reliable, 3000), send(2, 0, 1, Reliable, 10), send(2, 1, 1, Unreliable, 11)]),
        ("rel-late", vec![send(0, 0, 0, Unreliable, 20), send(3, 0, 0, Reliable, 21), send(6, 0, 1, Reliable, 4000)]),
    ]
}

fn c02(quick: bool) -> PropRun {
    let oracles = O_C02S | O_LIVE;
    let grid = cfg_grid(quick);
    let d = if quick { 2 } else { 3 };
    let dev = if quick { 6 } else { 10 };
    let mut scs = from_pool(quick, "C02", oracles | O_C01);
    scs.extend(peer_stream_scenarios("C02", quick, O_C02S | O_C01 | O_DEADLINE));
    scs.push(full_turn_scenario("C02", oracles | O_C01, false));
    // (the variant with a copy of an old data frame arriving one turn later - full_turn_scenario(.., true) - does not reproduce seed C02r9A yet and is not registered)
    for cfg in grid.iter() {
        if quick && !(cfg.pwin == 4 || (cfg.pwin == 4096 && cfg.pbase[0] == 0)) { continue; }
        for (name, ops) in mixed_scripts() {
            let si = Arc::new(ScriptInfo::new(ops));
            let mut env = env_live(dev);
            if quick { env.fates = &[Fate::Deliver, Fate::Drop, Fate::Dup, Fate::Delay3]; env.deltas = &[20, 0, 2000]; }
            scs.push(spec(&format!("C02.{}", name), cfg, &si, env, d, oracles));
            // blackout deviations (all frames of one or both directions lost for a while)
            let mut envb = env_live(dev);
            envb.fates = FATES_NONE; envb.deltas = &[20];
            envb.blackouts = if quick { &[(3, 3), (1, 100), (2, 100), (3, 500)] } else { &[(3, 3), (1, 20), (2, 20), (1, 100), (2, 100), (3, 100), (3, 500), (3, 3000)] };
            scs.push(spec(&format!("C02.blackout.{}", name), cfg, &si, envb, 1, oracles));
        }
    }
    if false {
    // all 3-packet scripts over 2 channels x {Unreliable, Reliable, Persistent}, one packet per round on a warm connection, with the liveness oracle
    let three = scripts_upto(3, &[0, 1], &[SendMode::Unreliable, SendMode::Reliable, SendMode::Persistent], &[40], &[1]);
    for cfg in [&grid[0], &grid[1]] {
        for s in three.iter().filter(|s| s.ops.len() == 3) {
            let s = &Arc::new(ScriptInfo::new(warm(&s.ops, 8)));
            let mut env = env_live(if quick { 5 } else { 7 }); env.dev_start = 8; env.max_rounds += 8;
            env.fates = &[Fate::Deliver, Fate::Drop, Fate::Dup, Fate::Delay3]; env.deltas = &[20, 2000];
            scs.push(spec("C02.three", cfg, s, env, if quick { 2 } else { 3 }, oracles | O_C01));
        }
    }
    }
    scs.extend(crate::props_ew::survive_scenarios(quick, false));
    PropRun { level: "model_checking", scenarios: scs, units: crate::rxsweep::units(quick, "C02"), replay_case: Some(crate::rxsweep::replay_case), summary: mixed(lw_summary(
        "fault prefix (deviations in the first dev_rounds rounds) followed by a fair network; safety on every round, bounded liveness at the horizon T_live = 300 s of virtual time (fixed a priori from protocol constants, never calibrated on the implementation); plus the user-visible form on real Client/Server objects with default time-outs: single-frame faults and pauses of at most 2 s must never end in an Error event, and all Reliable packets arrive within 45 s",
        json!({"d": d, "dev_rounds": dev, "T_live_ms": 300_000, "fair_cadence_ms": 20, "blackouts": "one or both directions, 3..3000 rounds, at every round of the prefix"}),
        &[A_LW[0], A_LW[1], A_LW[3], "bounded liveness: a change that slows recovery but stays inside T_live is not detected; a permanent stall is"])) }
}

// ------------------------------------------------------------------------------------------------
/// A peer that streams small Unreliable packets at every step (or every 5th) for the whole run, while this side submits a few packets
/// of its own, cold or after a warm-up exchange; ideal network. Judged per packet (delivered within T_live of submission).
pub fn peer_stream_scenarios(prop: &str, quick: bool, oracles: u32) -> Vec<Scenario> {
    use SendMode::*;
    let mut scs = Vec::new();
    let total = T_LIVE_ROUNDS + 400;
    for (name, every, warm_first) in [("every-step", 1usize, false), ("every-5th-step", 5, false), ("every-step.warm", 1, true)] {
        if quick && name == "every-5th-step" { continue; }
        let mut ops: Vec<Op> = Vec::new();
        if warm_first { ops.push(send(0, 0, 63, Reliable, 30)); }
        let start = if warm_first { 40 } else { 0 };
        // the stream ends 4 s before the horizon, so that at the horizon nothing is in flight
        ops.extend((0..(total - 200 - start) / every).map(|k| send(start + every * k, 1, 1, Unreliable, 20)));
        ops.push(send(start + 50, 0, 0, Reliable, 40)); ops.push(send(start + 50, 0, 0, Unreliable, 41)); ops.push(send(start + 60, 0, 2, Reliable, 3000));
        ops.sort_by_key(|o| o.round);
        let si = Arc::new(ScriptInfo::new(ops));
        for cad in [20u64, 5] {
            if quick && cad == 5 { continue; }
            let env = LwEnv { fates: FATES_NONE, deltas: &[20, 0, 2000], dev_rounds: 3, dev_start: start + 49, max_rounds: total, skip_choice: false, flush_choice: true, blackouts: &[],
                              stop_when_idle: false, fair_delta: cad, slow_after: usize::MAX, slow_delta: 250, fuel: 2_000_000, shifts: &[] };
            scs.push(spec(&format!("{}.peer-streams.{}", prop, name), &LwCfg { pwin: 4096, fwin: 4096, ..LwCfg::small() }, &si, env, if quick { 0 } else { 1 }, oracles));
        }
    }
    scs
}

/// A whole turn of the 20-bit packet id space inside one connection: a Reliable packet on channel 2, then 2^20 tiny Unreliable packets on
/// other channels (2100 per round, the window never empty), then - while the packet that now carries the Reliable packet's old id is
/// still in the window - the next packets on channel 2. Whatever the sender remembers about a channel's last Reliable packet must not
/// be mistaken for the packet that carries the same id one turn later.
pub fn full_turn_scenario(prop: &str, oracles: u32, replay: bool) -> Scenario {
    // (the script of a million packets is built when the scenario is first run, not whenever the scenario list is assembled)
    let cell: Arc<std::sync::OnceLock<Scenario>> = Arc::new(std::sync::OnceLock::new());
    let tag = format!("{}.full-turn-of-the-packet-id-space{}", prop, if replay { ".first-data-frame-replayed" } else { "" });
    let name = format!("{}|pw4096fw4096lat1|R on ch2, 2^20 Unreliable packets of 8 bytes on ch0/ch1 (2100 per round), then U R P on ch2|ideal network|d0", tag);
    let run = move |ch: &mut Chooser| -> ExecResult {
        let sc = cell.get_or_init(|| {
            use SendMode::*;
            let per_round = 2100usize;
            let mut ops: Vec<Op> = vec![send(0, 0, 2, Reliable, 20)];
            // the last packet of the last burst carries the Reliable packet's id one turn later (ids p+1 ..= p+2^20), on another channel; the
            // packets of channel 2 follow in the same round, while it is still in the window
            // (replay variant: one packet fewer and the tail 25 rounds later: when everything has been delivered the next id to be assigned is the
            // one the Reliable packet of channel 2 had a turn ago; a copy of the frame that carried it arrives 5 rounds before the tail)
            let total = if replay { (1usize << 20) - 1 } else { 1usize << 20 };
            for k in 0..total { ops.push(send(1 + k / per_round, 0, (k % 2) as u8, Unreliable, 8)); }
            let last = 1 + (total - 1) / per_round + if replay { 25 } else { 0 };
            ops.push(send(last, 0, 2, Unreliable, 30)); ops.push(send(last, 0, 2, Reliable, 31)); ops.push(send(last + 1, 0, 2, Persistent, 32)); ops.push(send(last + 2, 0, 0, Reliable, 33));
            let si = Arc::new(ScriptInfo::new(crate::lwprops::warm(&ops, 30)));
            let env = LwEnv { fates: FATES_NONE, deltas: &[20], dev_rounds: 0, dev_start: 0, max_rounds: 30 + last + 3000, skip_choice: false, flush_choice: false, blackouts: &[], stop_when_idle: true, fair_delta: 20, slow_after: usize::MAX, slow_delta: 250, fuel: 20_000_000, shifts: &[] };
            if !replay { return spec(&tag, &LwCfg { pwin: 4096, fwin: 4096, latency: 1, ..LwCfg::small() }, &si, env, 0, oracles); }
            // the network delivers a second copy of the data frame that carried channel 2's first Reliable packet one turn later
            // (its packet ids are ahead of the receive window again; only the frame id tells that it is old)
            let cfg = LwCfg { pwin: 4096, fwin: 4096, latency: 1, ..LwCfg::small() };
            let lspec = LwSpec { tag: tag.clone(), cfg: cfg.clone(), script: si.clone(), env: env.clone(), d: 0, oracles, probe_round: 0 };
            let at_round = 30 + last - 5;
            Scenario { name: String::new(), d: 0, run: Box::new(move |ch: &mut Chooser| {
                let mut inj = |round: usize, side: usize, tr: &Trace, _hc: &mut uflow::verif::HalfConnection| -> Vec<Vec<u8>> {
                    if round != at_round || side != 1 { return vec![]; }
                    use uflow::verif::Serialize;
                    tr.ems.iter().find(|e| e.side == 0 && e.round >= 30 && matches!(&e.frame, Some(uflow::verif::frame::Frame::DataFrame(d)) if d.datagrams.iter().any(|g| g.channel_id == 2))).and_then(|e| e.frame.clone()).map(|f| vec![f.write().to_vec()]).unwrap_or_default()
                };
                let tr = run_lw(&cfg, &si, &env, ch, Some(&mut inj));
                let violations = eval_oracles(&lspec, &tr);
                ExecResult { violations, panic: None, outcome: outcome_hash(&tr), states: state_hashes(&tr), transitions: tr.obs.len() as u64 + tr.rxs.len() as u64, witnesses: witnesses(&cfg, &si, &tr), sample: None }
            }) }
        });
        (sc.run)(ch)
    };
    Scenario { name, d: 0, run: Box::new(run) }
}

fn c05(quick: bool) -> PropRun {
    let mut scs = Vec::new();
    let oracles = O_C05 | O_C01 | O_FSIZE | O_LIVE;
    let grid = cfg_grid(quick);
    let n = if quick { 3 } else { 4 };
    let d = if quick { 2 } else { 3 };
    let sizes: &[usize] = &[0, 40, 2000];
    // up to 3 packets over the full alphabet; thorough adds every 4-packet script of small packets (4096 scripts)
    let mut scripts = scripts_upto(3, &[0, 1], &MODES, sizes, &[0]);
    if !quick { scripts.extend(scripts_upto(4, &[0, 1], &MODES, &[40], &[0]).into_iter().filter(|s| s.ops.len() == 4)); }
    let ideal = |lat: usize, dev: usize| -> (LwEnv, usize) {
        (LwEnv { fates: FATES_NONE, deltas: &[20, 0, 1, 150, 2000], dev_rounds: dev, dev_start: 0, max_rounds: dev + T_LIVE_ROUNDS, skip_choice: true, flush_choice: true, blackouts: &[],
                 stop_when_idle: true, fair_delta: 20, slow_after: usize::MAX, slow_delta: 250, fuel: 2_000_000, shifts: &[] }, lat)
    };
    for (ci, cfg0) in grid.iter().enumerate() {
        for lat in [1usize, 3] {
            if quick && (ci > 1 || lat == 3 && ci != 0) { continue; }
            let mut cfg = cfg0.clone(); cfg.latency = lat;
            for s in scripts.iter() {
                // quick: full 3-packet alphabet only on the first configuration
                if quick && s.ops.len() == 3 && ci != 0 { continue; }
                let (env, _) = ideal(lat, 4);
                scs.push(spec("C05.all", &cfg, s, env, if s.ops.len() >= 3 { d.min(if quick { 1 } else { 2 }) } else { d }, oracles));
            }
        }
    }
    // bursts exceeding window / flush budget / alloc limit, both directions
    use SendMode::*;
    let bursts: Vec<(&str, Vec<Op>, LwCfg)> = vec![
        ("burst-3x-window", (0..12).map(|i| send(0, 0, (i % 3) as u8, MODES[i % 3], 50 + i)).collect(), LwCfg { ..LwCfg::small() }),
        ("burst-budget", (0..6).map(|i| send(0, 0, (i % 2) as u8, if i % 2 == 0 { Reliable } else { Unreliable }, 1400 + i)).collect(), LwCfg { pwin: 8, fwin: 8, bw: [20_000, 20_000], ..LwCfg::small() }),
        ("burst-alloc", (0..5).map(|i| send(0, 0, 0, if i == 2 { Persistent } else { Reliable }, 2000 + i)).collect(), LwCfg { pwin: 8, fwin: 8, rx_alloc: [3 * FRAG, 3 * FRAG], ..LwCfg::small() }),
        ("both-directions", (0..8).map(|i| send(i / 4, i % 2, (i % 3) as u8, MODES[i % 4], if i % 3 == 0 { 3000 } else { 40 + i })).collect(), LwCfg::small()),
        ("ts-burst", vec![send(0, 0, 0, TimeSensitive, 1448), send(0, 0, 0, TimeSensitive, 1448), send(0, 0, 0, TimeSensitive, 1448), send(0, 0, 1, Reliable, 10), send(1, 0, 0, TimeSensitive, 20)], LwCfg { bw: [5000, 5000], ..LwCfg::small() }),
        ("wrap-burst", (0..10).map(|i| send(i / 5, 0, (i % 2) as u8, MODES[i % 3], 30 + i)).collect(), grid[1].clone()),
        // keep-alive switched off: a TimeSensitive packet that could not start leaves a gap in the sequence ids whose allocation stays charged at
        // the sender until a sync frame lets the receiver pass it; the next packet needs that room
        ("ts-gap-small-alloc.keepalive-off", vec![send(0, 0, 0, Unreliable, 10), send(0, 0, 0, TimeSensitive, 8000), send(5, 0, 0, Reliable, 3000), send(6, 0, 1, Unreliable, 30)], LwCfg { pwin: 4096, fwin: 4096, rx_alloc: [10_000, 10_000], keepalive: None, ..LwCfg::small() }),
        ("ts-burst.keepalive-off", vec![send(0, 0, 0, TimeSensitive, 1448), send(0, 0, 0, TimeSensitive, 1448), send(0, 0, 0, TimeSensitive, 1448), send(0, 0, 1, Reliable, 10), send(1, 0, 0, TimeSensitive, 20)], LwCfg { bw: [5000, 5000], keepalive: None, ..LwCfg::small() }),
        ("burst-alloc.keepalive-off", (0..5).map(|i| send(0, 0, 0, if i == 2 { Persistent } else { Reliable }, 2000 + i)).collect(), LwCfg { pwin: 8, fwin: 8, rx_alloc: [3 * FRAG, 3 * FRAG], keepalive: None, ..LwCfg::small() }),
    ];
    for (name, ops, cfg) in bursts {
        let si = Arc::new(ScriptInfo::new(ops));
        for lat in [1usize, 2, 5] {
            if quick && lat == 5 { continue; }
            let mut c = cfg.clone(); c.latency = lat;
            let (env, _) = ideal(lat, if quick { 5 } else { 8 });
            scs.push(spec(&format!("C05.{}", name), &c, &si, env, d, oracles));
        }
    }
    // the peer streams small packets from the start and goes on until the horizon; this side submits its first packets while it owes
    // acknowledgements all the time (no RTT estimate of its own yet, or one from an earlier exchange)
    scs.extend(peer_stream_scenarios("C05", quick, O_C05 | O_C01 | O_DEADLINE));
    // the shared pool's scripts and configurations on the ideal network (its fault menus are replaced by timing deviations)
    for mut sp in crate::pool::lw_pool(quick) {
        let (mut env, _) = ideal(sp.cfg.latency, if quick { 3 } else { 5 });
        env.dev_start = sp.env.dev_start; env.max_rounds = sp.env.dev_start + env.dev_rounds + T_LIVE_ROUNDS; env.deltas = &[20, 0, 2000]; env.skip_choice = false; env.fair_delta = sp.env.fair_delta;
        // (the pool's scripted losses belong to its fault menus: the ideal network loses nothing)
        sp.cfg.kill = None;
        sp.env = env; sp.d = 1; sp.oracles = oracles; sp.tag = format!("C05.pool-ideal.{}", sp.tag);
        scs.push(lw_scenario(sp));
    }
    PropRun { level: "model_checking", scenarios: scs, units: vec![], replay_case: None, summary: lw_summary(
        "ideal network (every frame delivered in order after a fixed latency); deviations are timing and application choices only (step spacing, one side skipping a step, extra flush() calls); oracle: global delivery order = submission order minus TimeSensitive packets, exactly once",
        json!({"d": d, "scripts": format!("all scripts of <= 3 packets over 2 channels x 4 modes x sizes {:?}{} + 6 burst scripts + the shared pool on the ideal network", sizes, if n == 4 { ", all 4-packet scripts of 40-byte packets" } else { "" }), "latency_rounds": [1, 2, 3, 5], "deltas_ms": [20, 0, 1, 150, 2000]}),
        A_LW) }
}

// ------------------------------------------------------------------------------------------------
/// A TimeSensitive packet waits in the send queue of a real sending `HalfConnection` behind a packet that the peer's receive allocation
/// keeps back, for exactly `wait` steps, for every `wait` from 1 to 1100 (70 000): the harness plays the receiver, acknowledges the frame of
/// the first packet at once (so nothing is retransmitted) and moves its packet window - which releases the allocation - `wait` steps later.
/// However long the packet has waited (counters of steps wrap at 2^8, 2^16), it is stale by then and must never reach the wire.
fn ts_wait_case(wait: usize, dt: u64) -> (Vec<Violation>, u64, Option<String>) {
    use uflow::verif::frame::{AckFrame, AckGroup, Frame}; use uflow::verif::Serialize;
    let r = crate::sweep::guarded(|| {
        let mut v = Vec::new();
        uflow::verif::set_time_ms(0); uflow::verif::seed(12); uflow::verif::set_fuel(5_000_000);
        let cfg = LwCfg { pwin: 4096, fwin: 4096, rx_alloc: [1_000_000, 1000], ..LwCfg::small() };
        let mut hc = uflow::verif::HalfConnection::new(cfg.half(0));
        let (p0, p1, ts, ts2, un) = (payload(0, 0, 0, 1000), payload(0, 0, 1, 600), payload(0, 0, 2, 50), payload(0, 1, 0, 51), payload(0, 0, 3, 52));
        hc.send(p0.clone(), 0, SendMode::Reliable); hc.send(p1.clone(), 0, SendMode::Reliable); hc.send(ts.clone(), 0, SendMode::TimeSensitive); hc.send(ts2.clone(), 1, SendMode::TimeSensitive);
        let mut now = 0u64; let mut seen_p1 = None; let mut h = 0xcbf29ce484222325u64;
        for step in 0..wait + 40 {
            let mut fs = FS(vec![]); hc.flush(&mut fs);
            for bytes in fs.0.iter() {
                if let Some(Frame::DataFrame(df)) = Frame::read(bytes) {
                    for dg in df.datagrams.iter() {
                        if dg.data[..] == ts[..] || dg.data[..] == ts2[..] { v.push(viol("C12.ts-late", "C12.ts-late:after-waiting-behind-a-blocked-packet".into(), format!("a TimeSensitive packet handed to send() before step 0 was transmitted in the flush of step {} (it waited in the send queue behind a packet held back by the peer's receive allocation for {} steps of {} ms)", step, wait, dt))); }
                        if dg.data[..] == p1[..] && seen_p1.is_none() { seen_p1 = Some(step); }
                    }
                    // the receiver acknowledges every frame at once; its packet window moves past the first packet only after `wait` steps
                    hc.handle_ack_frame(AckFrame { frame_window_base_id: df.sequence_id.wrapping_add(1), packet_window_base_id: if step >= wait { cfg.pbase[0] + 2 } else { cfg.pbase[0] }, frame_acks: vec![AckGroup { base_id: df.sequence_id, bitfield: 1, nonce: df.nonce }] });
                }
            }
            if step == wait { hc.handle_ack_frame(AckFrame { frame_window_base_id: hc.verif_probe().tx_frame_next, packet_window_base_id: cfg.pbase[0] + 1, frame_acks: vec![] }); }
            if step == 1 { hc.send(un.clone(), 0, SendMode::Unreliable); }
            now += dt; uflow::verif::set_time_ms(now);
            hc.step();
            h = fnv(h, fs.0.len() as u64);
        }
        uflow::verif::set_fuel(u64::MAX);
        // witness: the blocked packet did go out once the allocation was released (otherwise the case shows nothing)
        if seen_p1.map_or(true, |s| s < wait) { v.push(viol("C12.machinery", "C12.machinery:ts-wait".into(), format!("harness expectation failed: the blocked packet was first transmitted in step {:?}, the allocation was released in step {}", seen_p1, wait))); }
        (v, h ^ seen_p1.unwrap_or(0) as u64)
    });
    uflow::verif::set_fuel(u64::MAX);
    match r { Ok((v, h)) => (v, h, None), Err(p) => (vec![], 0xDEAD, Some(p)) }
}

pub fn ts_wait_units(quick: bool) -> Vec<Unit> {
    let mut units: Vec<Unit> = Vec::new();
    let max_wait = if quick { 1100usize } else { 70_000 };
    for dt in [4u64, 16, 100] {
        for block in 0..(max_wait + 99) / 100 {
            units.push(Box::new(move |acc: &mut Acc| {
                for wait in (block * 100 + 1)..=((block + 1) * 100).min(max_wait) {
                    if !quick && wait > 1100 && !(wait % 256 <= 1 || wait % 256 == 255) { continue; }
                    let (v, h, panic) = ts_wait_case(wait, dt);
                    acc.evals += 1; acc.transitions += wait as u64 + 40; acc.outcomes.insert(h);
                    if let Some(p) = panic { acc.panics += 1; acc.violation(format!("case:tswait:{}:{}", wait, dt), aborted_by_panic_c12(&p)); }
                    for x in v { acc.violation(format!("case:tswait:{}:{}", wait, dt), x); }
                    if wait == 300 { acc.sample(format!("TimeSensitive packet waiting {} steps of {} ms behind a packet blocked by the peer's receive allocation", wait, dt)); }
                }
            }));
        }
    }
    units
}
fn aborted_by_panic_c12(p: &str) -> Violation { viol("C12.aborted-by-panic", format!("C12.aborted-by-panic:{}", p.rsplit(" @ ").next().unwrap_or("")), format!("the library panicked: {}", p)) }
pub fn ts_wait_replay(case: &str) -> Vec<Violation> {
    let f: Vec<&str> = case.strip_prefix("case:tswait:").unwrap_or("").split(':').collect();
    if f.len() != 2 { return vec![]; }
    let (v, _, p) = ts_wait_case(f[0].parse().unwrap_or(1), f[1].parse().unwrap_or(4));
    if let Some(p) = p { println!("PANIC inside uflow: {}", p); }
    v
}

fn c12(quick: bool) -> PropRun {
    let oracles = O_C12 | O_C12L;
    let grid = cfg_grid(quick);
    let d = if quick { 2 } else { 3 };
    let mut scs = from_pool(quick, "C12", oracles);
    if !quick {
        let small = scripts_upto(2, &[0, 1], &MODES, &[40, 2000, 3000], &[0, 1]);
        for s in small.iter() { let mut env = env_live(6); env.flush_choice = true; scs.push(spec("C12.all", &grid[0], s, env, 2, oracles)); }
    }
    for sp in crate::props_ew::c12_api_specs(quick) { scs.push(crate::eprops::ew_scenario(sp)); }
    PropRun { level: "model_checking", scenarios: scs, units: ts_wait_units(quick), replay_case: Some(ts_wait_replay), summary: lw_summary(
        "transmissions per (packet id, fragment id) read from the wire, acknowledgements from the frames handed to the sender; Unreliable/TimeSensitive at most once, TimeSensitive never first transmitted after the step following send(), Persistent/Reliable never retransmitted after a processed acknowledgement or a packet-window base beyond the packet, and at the horizon every such fragment is acknowledged, moved past or still scheduled",
        json!({"d": d, "fates": "deliver/drop/dup/delay1/delay3 on data and ack frames", "flush_budgets": "2 MB/s, 20 kB/s, 5 kB/s"}),
        A_LW) }
}

// ------------------------------------------------------------------------------------------------
fn c13(quick: bool) -> PropRun {
    let mut scs = from_pool(quick, "C13", O_C13);
    let oracles = O_C13;
    let d = if quick { 2 } else { 3 };
    use SendMode::*;
    let backlog = |n: usize| -> Vec<Op> { (0..n).map(|i| send(0, 0, (i % 2) as u8, if i % 2 == 0 { Reliable } else { Unreliable }, 1400)).collect() };
    let scripts: Vec<(&str, Vec<Op>)> = vec![
        ("idle", vec![]),
        ("one-frame", vec![send(0, 0, 0, Reliable, 1400)]),
        ("backlog-20", backlog(20)),
        ("backlog-100", backlog(100)),
        ("big-packet", vec![send(0, 0, 0, Reliable, 60_000)]),
        ("both-ways", (0..16).map(|i| send(i / 8, i % 2, 0, Reliable, 1400)).collect()),
        ("idle-then-backlog", std::iter::once(send(0, 0, 5, Reliable, 100)).chain((0..60).map(|i| send(150, 0, (i % 2) as u8, Reliable, 1400))).collect()),
        ("trickle-then-backlog", (0..10).map(|i| send(i * 12, 0, 5, Reliable, 300)).chain((0..60).map(|i| send(160, 0, (i % 2) as u8, Unreliable, 1400))).collect()),
    ];
    for (name, ops) in scripts {
        let si = Arc::new(ScriptInfo::new(ops));
        for bw in [1472u32, 5000, 100_000, 2_000_000] {
            if quick && (bw == 100_000) && !name.contains("then-backlog") { continue; }
            let idle = name.contains("then-backlog");
            if idle && bw < 5000 { continue; }
            let cfg = LwCfg { pwin: 4096, fwin: 4096, bw: [bw, bw], latency: if idle { 5 } else { 1 }, ..LwCfg::small() };
            let dev = if quick { 6 } else { 10 };
            let env = LwEnv { fates: &[Fate::Deliver, Fate::Drop, Fate::Delay3], deltas: &[20, 0, 1, 1000, 60_000], dev_rounds: dev, dev_start: 0, max_rounds: dev + 150, skip_choice: false, flush_choice: true,
                              blackouts: &[], stop_when_idle: false, fair_delta: 20, slow_after: usize::MAX, slow_delta: 250, fuel: 2_000_000, shifts: &[] };
            let mut env = env; if idle { env.dev_start = 148; env.max_rounds = 148 + dev + 250; }
            // with a backlog: the acknowledgements (or everything) are lost for 2 s / 10 s from any round of the window - feedback
            // blackouts drive the nofeedback timer while the sender keeps transmitting
            if name.starts_with("backlog") || name == "big-packet" {
                let mut envb = env.clone(); envb.blackouts = &[(2, 100), (2, 500), (3, 100)]; envb.max_rounds = dev + 700; envb.deltas = &[20, 0, 1000];
                scs.push(spec(&format!("C13.{}.feedback-blackout", name), &cfg, &si, envb, d, oracles));
            }
            // low ceilings send a frame every 0.3-1 s: loss is only reported after a second; the feedback blackout may start up to 2 s in
            if name == "backlog-20" && bw <= 5000 {
                let mut envl = env.clone(); envl.blackouts = &[(2, 250), (3, 250)]; envl.dev_rounds = if quick { 100 } else { 150 }; envl.max_rounds = envl.dev_rounds + 800; envl.deltas = &[20]; envl.flush_choice = false; envl.fates = &[Fate::Deliver, Fate::Drop];
                scs.push(spec(&format!("C13.{}.late-feedback-blackout", name), &cfg, &si, envl, 2, oracles));
            }
            scs.push(spec(&format!("C13.{}", name), &cfg, &si, env, d, oracles));
        }
    }
    // fast step cadences (1 ms, 7 ms) against low ceilings that are not whole bytes per step
    for bw in [1472u32, 1600, 2500, 5000] {
        for cad in [1u64, 7] {
            let cfg = LwCfg { pwin: 4096, fwin: 4096, bw: [bw, bw], ..LwCfg::small() };
            let si = Arc::new(ScriptInfo::new((0..30).map(|i| send(0, 0, (i % 2) as u8, Reliable, 1400)).collect()));
            let env = LwEnv { fates: FATES_NONE, deltas: leak(&[cad, 0, 20, 1000]), dev_rounds: if quick { 4 } else { 8 }, dev_start: 0, max_rounds: (6000 / cad) as usize, skip_choice: false, flush_choice: true,
                              blackouts: &[], stop_when_idle: false, fair_delta: cad, slow_after: usize::MAX, slow_delta: 250, fuel: 2_000_000, shifts: &[] };
            scs.push(spec("C13.fast-cadence", &cfg, &si, env, if quick { 1 } else { 2 }, oracles));
        }
    }
    // the flush allowance is capped at rate x RTT estimate: a long link fills it (40 kB at 100 kB/s and 400 ms), the latency then drops to one
    // round while only a trickle flows (the estimate follows over some tens of feedbacks), and a backlog arrives: nothing saved up under
    // the old estimate may be spent
    {
        let cfg = LwCfg { pwin: 4096, fwin: 4096, bw: [100_000, 100_000], latency: 10, ..LwCfg::small() };
        let mut ops: Vec<Op> = (0..215).map(|i| send(0, 0, (i % 2) as u8, if i % 2 == 0 { Reliable } else { Unreliable }, 1400)).collect();
        for r in (300..720).step_by(4) { ops.push(send(r, 0, 2, Unreliable, 20)); }
        for i in 0..110 { ops.push(send(720, 0, (i % 2) as u8, if i % 2 == 0 { Reliable } else { Unreliable }, 1400)); }
        let si = Arc::new(ScriptInfo::new(ops));
        let env = LwEnv { fates: &[Fate::Deliver], deltas: &[20], dev_rounds: if quick { 40 } else { 200 }, dev_start: 300, max_rounds: 1100, skip_choice: false, flush_choice: false,
                          blackouts: &[], stop_when_idle: false, fair_delta: 20, slow_after: usize::MAX, slow_delta: 250, fuel: 2_000_000, shifts: &[Shift::Latency(1), Shift::Latency(3)] };
        scs.push(spec("C13.rtt-drop-then-backlog", &cfg, &si, env, 1, oracles));
    }
    scs.push(crate::props_ew::c13_endpoint_scenario());
    scs.push(crate::props_ew::config_extremes_scenario("C13", crate::eprops::EO_C13, if quick { 2 } else { 3 }));
    PropRun { level: "model_checking", scenarios: scs, units: vec![], replay_case: None, summary: lw_summary(
        "every pair of emission instants of every execution is checked against bytes <= C*(dt + RTT*) + 1472 (no rounding allowance), C = the connection's negotiated ceiling, RTT* = the largest estimate reported from the step before the interval to its end",
        json!({"d": d, "ceilings_Bps": [1472, 5000, 100_000, 2_000_000], "backlogs": "0, 1, 20, 100 frames, one 60 kB packet, both directions", "deltas_ms": [20, 0, 1, 1000, 60_000], "extra_flushes_per_step": [0, 1, 3]}),
        A_LW) }
}

// ------------------------------------------------------------------------------------------------
fn c20(quick: bool) -> PropRun {
    let oracles = O_C20;
    let grid = cfg_grid(quick);
    let d = if quick { 2 } else { 3 };
    let mut scs = from_pool(quick, "C20", oracles | O_LIVE);
    if !quick {
        let small = scripts_upto(3, &[0], &MODES, &[0, 40, 2000], &[0, 1]);
        for s in small.iter() { scs.push(spec("C20.all", &grid[0], s, env_live(5), 2, oracles)); }
    }
    // a misbehaving peer: the state-relative hostile frames of C03 handed to either side of a session in which TimeSensitive packets are
    // dequeued but cannot start; the counter must survive whatever the peer acknowledges (an underflow of it is a C20 verdict)
    scs.push(crate::c03::lw_hostile("C20.hostile-ts-session", LwCfg { pwin: 4096, fwin: 4096, ..LwCfg::small() }, crate::c03::ts_session(), if quick { 4 } else { 8 }, false));
    // the same quantity at the API of Client and RemoteClient (endpoint world): echo / transfer scenarios of C08 and C09 and bulk-ish survive scripts
    for mut sp in crate::props_ew::c08_specs(quick).into_iter().chain(crate::props_ew::c09_specs(quick).into_iter()) {
        if sp.tag.contains("blackout") || sp.tag.contains("full-server") { continue; }
        sp.oracles = crate::eprops::EO_C20; sp.tag = format!("C20.api.{}", sp.tag); sp.env.stop_when_done = false; sp.env.max_rounds = sp.env.max_rounds.max(sp.env.dev_start + sp.env.dev_rounds + 110);
        scs.push(crate::eprops::ew_scenario(sp));
    }
    PropRun { level: "model_checking", scenarios: scs, units: vec![], replay_case: None, summary: mixed(lw_summary(
        "send_buffer_size() compared on every round with bounds [L,U] derived from the API calls and the wire (L = U unless a TimeSensitive packet that never reaches the wire may already have been discarded); zero and nothing pending at the horizon; at the API of Client and RemoteClient: 0 unless established, never above the bytes handed to send(), 0 again once a still established connection has been quiet for 60 rounds",
        json!({"d": d}),
        A_LW)) }
}

// ------------------------------------------------------------------------------------------------
fn c11(quick: bool) -> PropRun {
    let mut scs = Vec::new();
    use SendMode::*;
    let dev = if quick { 8 } else { 14 };
    let probe_round = dev + 3000 + 60;
    let probes = |v: &mut Vec<Op>| {
        v.push(send(probe_round, 0, 10, Unreliable, 50)); v.push(send(probe_round, 0, 11, Persistent, 2000)); v.push(send(probe_round, 0, 12, Reliable, 60)); v.push(send(probe_round, 0, 13, TimeSensitive, 70));
        v.push(send(probe_round + 5, 0, 12, Reliable, 1400)); v.push(send(probe_round + 5, 1, 12, Reliable, 1400)); v.push(send(probe_round + 6, 0, 10, Unreliable, 51));
    };
    let fills: Vec<(&str, Vec<Op>, LwCfg)> = vec![
        ("window-fill-small", (0..12).map(|i| send(i / 6, 0, (i % 3) as u8, MODES[i % 4], 40 + i)).collect(), LwCfg { pwin: 4, fwin: 4, ..LwCfg::small() }),
        ("window-fill-frames", (0..10).map(|i| send(i / 5, 0, (i % 2) as u8, if i % 2 == 0 { Reliable } else { Persistent }, 1400)).collect(), LwCfg { pwin: 8, fwin: 4, ..LwCfg::small() }),
        ("alloc-exhausted", (0..5).map(|i| send(0, 0, 0, if i % 2 == 0 { Reliable } else { Unreliable }, 2000 + i)).collect(), LwCfg { pwin: 8, fwin: 8, rx_alloc: [30_000, 3 * FRAG], ..LwCfg::small() }),
        ("default-windows-stream", (0..16).map(|i| send(i / 2, i % 2, (i % 3) as u8, MODES[i % 4], 700 + 100 * i)).collect(), LwCfg { pwin: 4096, fwin: 4096, ..LwCfg::small() }),
        ("idle-before-fault", vec![send(0, 0, 0, Reliable, 20)], LwCfg { pwin: 4, fwin: 8, ..LwCfg::small() }),
        // the peer is itself busy sending large frames at a low rate (its send allocation is negative most of the time) while this side's
        // window is full of lost packets and only sync frames can reopen it
        ("sync-to-a-busy-low-rate-peer", (0..8).map(|i| send(i / 4, 0, (i % 2) as u8, Unreliable, 40 + i)).chain((0..((probe_round + 2000) / 40)).map(|k| send(40 * k, 1, 2, Unreliable, 1400))).collect(), LwCfg { pwin: 4, fwin: 8, bw: [2_000_000, 1500], ..LwCfg::small() }),
        // the peer streams small packets (10 per second) for the whole run: this side owes acknowledgements all the time
        ("reverse-stream", (0..4).map(|i| send(i, 0, 0, Reliable, 1400)).chain((0..((probe_round + T_LIVE_ROUNDS - 1000) / 5)).map(|k| send(5 * k, 1, 1, Unreliable, 20))).collect(), LwCfg { pwin: 4096, fwin: 4096, ..LwCfg::small() }),
    ];
    for (name, mut ops, cfg) in fills {
        probes(&mut ops);
        let si = Arc::new(ScriptInfo::new(ops));
        for cadence in [20u64, 100] {
            if quick && cadence == 100 && name != "window-fill-small" { continue; }
            let env = LwEnv { fates: &[Fate::Deliver, Fate::Drop], deltas: leak(&[cadence, 2000, 10_000]), dev_rounds: dev, dev_start: 0, max_rounds: probe_round + T_LIVE_ROUNDS, skip_choice: false, flush_choice: false,
                              blackouts: &[(3, 5), (1, 100), (2, 100), (3, 100), (1, 500), (2, 500), (3, 500), (1, 3000), (2, 3000), (3, 3000)], stop_when_idle: true, fair_delta: cadence, slow_after: usize::MAX, slow_delta: 250, fuel: 4_000_000,
                              shifts: &[Shift::Latency(10), Shift::Latency(25), Shift::Cadence(200), Shift::Cadence(1000)] };
            let mut sp = LwSpec { tag: format!("C11.{}", name), cfg: cfg.clone(), script: si.clone(), env, d: if quick { 1 } else { 2 }, oracles: O_C11 | O_C01, probe_round };
            if quick { sp.env.fates = FATES_NONE; sp.env.deltas = leak(&[cadence, 10_000]); }
            // keep-alive switched off (EndpointConfig::keepalive = false): the sync frames that resynchronise the windows after losses are not keep-alives
            if cadence == 20 && ["window-fill-small", "window-fill-frames", "alloc-exhausted"].contains(&name) {
                let mut off = sp.clone(); off.cfg.keepalive = None; off.tag = format!("C11.{}.keepalive-off", name);
                scs.push(lw_scenario(off));
            }
            scs.push(lw_scenario(sp));
        }
    }
    scs.extend(crate::props_ew::survive_scenarios(quick, true));
    // the shared pool (single losses, duplicates, delays, pauses on small windows and allocations): nothing may stay stalled at T_live
    scs.extend(from_pool(quick, "C11", O_C11POOL));
    PropRun { level: "model_checking", scenarios: scs, units: vec![], replay_case: None, summary: mixed(lw_summary(
        "fault phase (one or two deviations: a blackout of 5/100/500/3000 rounds in one or both directions starting at any round of the window, a lasting change of latency x10/x25 or of the step cadence x10/x50, single losses, pauses of 2 and 10 s) followed by a fair network; probe packets of every mode (50 B to 2 kB, both directions) submitted after the longest fault must all be delivered, earlier Reliable packets too, within T_live = 300 s of steps (fixed a priori); data still pending at the horizon must at least have made progress since the probes were submitted",
        json!({"d": if quick { 1 } else { 2 }, "blackout_rounds": [5, 100, 500, 3000], "directions": ["a->b", "b->a", "both"], "shifts": ["latency 1->10 rounds", "latency 1->25 rounds", "cadence ->200 ms", "cadence ->1000 ms"], "fills": ["packet window 4 filled 3x", "frame window 4 filled", "receive allocation of 3 fragments exhausted", "default 4096 windows, both directions", "idle"], "probe_round": probe_round, "T_live_rounds": T_LIVE_ROUNDS}),
        &[A_LW[0], A_LW[1], A_LW[3], "bounded liveness: recovery slower than T_live after the probes is reported, recovery inside it is not distinguished from immediate recovery"])) }
}

fn leak(v: &[u64]) -> &'static [u64] { Box::leak(v.to_vec().into_boxed_slice()) }
