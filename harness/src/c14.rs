//! C14: the allowed send rate obeys the RFC 5348 bounds. All sequences of events up to a length
//! over a boundary alphabet are applied to the real `SendRateComp`; after every event the new rate
//! and RTT estimate are compared with bounds computed independently from the RFC formulas.
//! With `for_c03` the same sweep only asks that no call panics or exceeds its work budget.

use crate::explore::*;
use crate::lw::viol;
use crate::report::Summary;
use crate::sweep::*;
use crate::PropRun;
use serde_json::json;
use uflow::verif::*;

const MSS: f64 = 1472.0;
const FLOOR: f64 = 23.0; // s / t_mbi = 1472 / 64
const W_INIT: f64 = 4380.0;

/// TCP throughput equation of RFC 5348 section 3.1 with t_RTO = 4R, b = 1.
fn x_bps(r: f64, p: f64) -> f64 {
    if p <= 0.0 || r <= 0.0 { return f64::INFINITY; }
    let f = (2.0 * p / 3.0).sqrt() + 12.0 * (3.0 * p / 8.0).sqrt() * p * (1.0 + 32.0 * p * p);
    MSS / (r * f)
}

#[derive(Clone, Copy, Debug, PartialEq)]
pub enum Ev { Sent, Fb { rtt: u64, recv: u32, loss: f64, rl: bool, gap: u64 }, NoFb { gap: u64 },
              /// a long silence while transmitting: n times (frame sent; step without feedback after `gap` ms), each step checked like NoFb
              Silence { gap: u64, n: u32 } }

pub fn alphabet(full: bool) -> Vec<Ev> {
    let rtts: &[u64] = if full { &[0, 1, 100, 3000] } else { &[1, 100] };
    let recvs: &[u32] = if full { &[0, 1000, 1_000_000, u32::MAX] } else { &[0, 50_000] };
    let losses: &[f64] = if full { &[0.0, 1e-4, 0.1, 1.0] } else { &[0.0, 1e-3, 1.0] };
    let fgaps: &[u64] = if full { &[1, 100] } else { &[100] };
    let gaps: &[u64] = if full { &[0, 1, 100, 5000, 1_000_000] } else { &[100, 5000, 300_000] };
    let mut a = vec![Ev::Sent];
    for &rtt in rtts { for &recv in recvs { for &loss in losses { for rl in [false, true] { for &gap in fgaps { a.push(Ev::Fb { rtt, recv, loss, rl, gap }); } } } } }
    for &gap in gaps { a.push(Ev::NoFb { gap }); }
    a.push(Ev::Silence { gap: 5000, n: 14 });
    if full { a.push(Ev::Silence { gap: 1_000_000, n: 40 }); }
    a
}

/// Applies one sequence; returns violations as (clause, sig, detail).
pub fn run_seq(ceil: u32, seq: &[Ev], for_c03: bool) -> (Vec<Violation>, u64, Option<String>) {
    let r = guarded(|| {
        let mut v: Vec<Violation> = Vec::new();
        let mut push = |v: &mut Vec<Violation>, sig: &str, d: String| { if !v.iter().any(|x| x.sig == sig) { v.push(viol(&sig[..sig.find(':').unwrap_or(sig.len())], sig.to_string(), d)); } };
        set_fuel(200_000);
        let mut s = SendRateComp::new(ceil);
        let mut now = 0u64;
        s.notify_frame_sent(now);
        let mut loss_mode = false; let mut p_cur = 0.0f64; let mut prev_loss = 0.0f64; let mut h = 0xcbf29ce484222325u64;
        let expanded: Vec<Ev> = seq.iter().flat_map(|e| match *e { Ev::Silence { gap, n } => (0..n).flat_map(|_| [Ev::Sent, Ev::NoFb { gap }]).collect::<Vec<_>>(), e => vec![e] }).collect();
        for (k, ev) in expanded.iter().enumerate() {
            let x0 = s.send_rate(); let r0 = s.rtt_s();
            match *ev {
                Ev::Sent => { s.notify_frame_sent(now); if s.send_rate() != x0 { push(&mut v, "C14.sent:rate-changed", format!("notify_frame_sent changed the rate from {} to {}", x0, s.send_rate())); } }
                Ev::Fb { rtt, recv, loss, rl, gap } => {
                    now += gap;
                    let mut reset_p: Option<f64> = None;
                    s.step(now, Some(FeedbackData { rtt_ms: rtt, receive_rate: recv, loss_rate: loss, rate_limited: rl }), |p| reset_p = Some(p));
                    let x1 = s.send_rate(); let r1 = s.rtt_s().unwrap_or(-1.0);
                    let exp_r = match r0 { Some(r) => 0.9 * r + 0.1 * (rtt as f64 / 1000.0), None => rtt as f64 / 1000.0 };
                    if (r1 - exp_r).abs() > 1e-6 { push(&mut v, "C14.rtt:average", format!("event {}: RTT estimate {} after sample {} ms on previous estimate {:?}; 0.9/0.1 moving average gives {}", k, r1, rtt, r0, exp_r)); }
                    let increase = loss > prev_loss;
                    prev_loss = loss;
                    if !loss_mode && increase { loss_mode = true; }
                    if loss_mode { p_cur = match reset_p { Some(p) => p, None => loss }; }
                    if x1 > ceil as f64 { push(&mut v, "C14.ceiling:feedback", format!("event {}: rate {} above the configured maximum {} after feedback", k, x1, ceil)); }
                    if loss_mode {
                        let tol = if reset_p.is_some() { 1.06 } else { 1.0 };
                        let bound = (x_bps(r1, p_cur) * tol).max(FLOOR);
                        if x1 > bound + 1.0 { push(&mut v, "C14.equation:exceeded", format!("event {}: after loss was reported the rate is {} but the throughput equation for R={} s, p={} allows {:.1} (floor {})", k, x1, r1, p_cur, x_bps(r1, p_cur), FLOOR)); }
                    } else {
                        let bound = (2.0 * x0).max(if r1 > 0.0 { W_INIT / r1 } else { f64::INFINITY });
                        if x1 > bound + 1.0 { push(&mut v, "C14.slowstart:more-than-double", format!("event {}: in slow start one feedback took the rate from {} to {}; at most max(2X, W_init/R) = {:.1} is allowed (R = {})", k, x0, x1, bound, r1)); }
                    }
                    if x1 < FLOOR.min(ceil as f64).floor() { push(&mut v, "C14.floor:feedback", format!("event {}: rate {} below the s/64 floor after feedback", k, x1)); }
                }
                Ev::NoFb { gap } => {
                    now += gap;
                    s.step(now, None, |_| {});
                    let x1 = s.send_rate();
                    if x1 > x0 { push(&mut v, "C14.nofeedback:increase", format!("event {}: the rate rose from {} to {} although no feedback arrived", k, x0, x1)); }
                    if x1 < FLOOR.min(x0) - 0.5 { push(&mut v, "C14.nofeedback:below-floor", format!("event {}: a nofeedback expiry took the rate from {} to {}, below min(X, s/64)", k, x0, x1)); }
                    else if x1 < (x0 / 2.0).floor() - 1.0 && x1 >= FLOOR { push(&mut v, "C14.nofeedback:more-than-halved", format!("event {}: a single step without feedback took the rate from {} to {} (more than halved)", k, x0, x1)); }
                    if x1 > ceil as f64 { push(&mut v, "C14.ceiling:nofeedback", format!("event {}: rate {} above the configured maximum {} after a nofeedback expiry", k, x1, ceil)); }
                    if s.rtt_s() != r0 { push(&mut v, "C14.rtt:changed-without-sample", format!("event {}: RTT estimate changed without a sample", k)); }
                }
                Ev::Silence { .. } => unreachable!(),
            }
            h = fnv(h, s.send_rate() as u64); h = fnv(h, s.rto_ms().unwrap_or(0));
        }
        set_fuel(u64::MAX);
        (v, h)
    });
    set_fuel(u64::MAX);
    match r {
        Ok((v, h)) => (if for_c03 { vec![] } else { v }, h, None),
        Err(p) => (vec![], 0xDEAD, Some(p)),
    }
}

pub fn encode(ceil: u32, seq: &[Ev]) -> String {
    let evs: Vec<String> = seq.iter().map(|e| match e { Ev::Sent => "S".to_string(), Ev::Fb { rtt, recv, loss, rl, gap } => format!("F,{},{},{},{},{}", rtt, recv, loss, *rl as u8, gap), Ev::NoFb { gap } => format!("N,{}", gap), Ev::Silence { gap, n } => format!("L,{},{}", gap, n) }).collect();
    format!("case:tfrc:{}:{}", ceil, evs.join(";"))
}

pub fn decode(case: &str) -> Option<(u32, Vec<Ev>)> {
    let rest = case.strip_prefix("case:tfrc:")?;
    let (c, evs) = rest.split_once(':')?;
    let mut seq = Vec::new();
    for e in evs.split(';').filter(|x| !x.is_empty()) {
        let f: Vec<&str> = e.split(',').collect();
        seq.push(match f[0] { "S" => Ev::Sent, "F" => Ev::Fb { rtt: f[1].parse().ok()?, recv: f[2].parse().ok()?, loss: f[3].parse().ok()?, rl: f[4] == "1", gap: f[5].parse().ok()? }, "L" => Ev::Silence { gap: f[1].parse().ok()?, n: f[2].parse().ok()? }, _ => Ev::NoFb { gap: f[1].parse().ok()? } });
    }
    Some((c.parse().ok()?, seq))
}

pub fn units(plans: &[(bool, usize)], for_c03: bool) -> Vec<Unit> {
    let mut units: Vec<Unit> = Vec::new();
    // (C14 speaks about ceilings of at least one frame per second; the panic oracle of C03 also takes the rate limits a peer may announce below that)
    let ceilings: Vec<u32> = if for_c03 { vec![1, 22, 23, 1472, 10_000, u32::MAX] } else { vec![1472u32, 10_000, u32::MAX] };
    for &(full, depth) in plans {
        let alpha = alphabet(full);
        for &ceil in &ceilings {
            for first in 0..alpha.len() {
                let alpha = alpha.clone();
                units.push(Box::new(move |acc: &mut Acc| {
                    let n = alpha.len();
                    let mut idx = vec![0usize; depth]; idx[0] = first;
                    loop {
                        let seq: Vec<Ev> = idx.iter().map(|&i| alpha[i]).collect();
                        let (v, h, panic) = run_seq(ceil, &seq, for_c03);
                        acc.evals += 1; acc.transitions += depth as u64; acc.outcomes.insert(h);
                        if let Some(p) = panic {
                            acc.panics += 1;
                            if for_c03 {
                                let fuel = p.contains(FUEL_PANIC);
                                let loc = p.rsplit(" @ ").next().unwrap_or("").to_string();
                                acc.violation(encode(ceil, &seq), viol(if fuel { "C03.unbounded-work" } else { "C03.panic" }, format!("C03.{}:tfrc:{}", if fuel { "unbounded-work" } else { "panic" }, loc), format!("SendRateComp (ceiling {}) fed with {:?}: {}", ceil, seq, p)));
                            }
                        }
                        for x in v { acc.violation(encode(ceil, &seq), x); }
                        if first == 1 && idx[1..].iter().all(|&i| i == 2) { acc.sample(format!("ceiling {} events {:?}", ceil, seq)); }
                        let mut k = depth; let mut done = true;
                        while k > 1 { k -= 1; idx[k] += 1; if idx[k] < n { done = false; break; } idx[k] = 0; }
                        if done { break; }
                    }
                }));
            }
        }
    }
    units
}

// ------------------------------------------------------------------------------------------------
// The loss event rate (RFC 5348 sections 5.2 - 5.4) that the throughput equation is evaluated with
// ------------------------------------------------------------------------------------------------

/// Letters: the next frame in send order was acknowledged (`A(k)`: k of them), or was lost, having been sent `dt` ms after the previous
/// lost-or-acknowledged event (`N(dt)`), with the RTT estimate `rtt` in force when the loss is detected.
#[derive(Clone, Copy, Debug, PartialEq)]
pub enum Lev { A(u32), N(u64), Reset(u32) }

pub const LOSS_RTT_MS: u64 = 100;

/// Reference: loss events of RFC 5348 5.2 (a loss starts a new event if its frame was sent more than one RTT after the frame that started the
/// current event, as measured when the event started), intervals of 5.3 counted in frames from the start of one event to the start of the next,
/// and the weighted average of 5.4 over the open interval and the last eight closed ones (whichever of I_tot0, I_tot1 is larger).
fn loss_ref(seq: &[Lev]) -> Vec<f64> {
    const W: [f64; 8] = [1.0, 1.0, 1.0, 1.0, 0.8, 0.6, 0.4, 0.2];
    let mut out = Vec::new();
    let mut t = 0u64;
    let mut ivs: Vec<u64> = Vec::new();     // newest first; ivs[0] is the open interval
    let mut event_end: Option<u64> = None;
    for e in seq {
        match *e {
            Lev::A(k) => { if !ivs.is_empty() { ivs[0] += k as u64; } }
            Lev::N(dt) => {
                t += dt;
                if event_end.map_or(true, |end| t >= end) { ivs.insert(0, 1); ivs.truncate(9); event_end = Some(t + LOSS_RTT_MS); } else { ivs[0] += 1; }
            }
            Lev::Reset(len) => { ivs.truncate(1); if !ivs.is_empty() { ivs[0] = len as u64; } }
        }
        let p = if ivs.is_empty() { 0.0 } else if ivs.len() == 1 { 1.0 / ivs[0] as f64 } else {
            let n = ivs.len() - 1;
            let tot0: f64 = (0..n).map(|i| ivs[i] as f64 * W[i]).sum(); let tot1: f64 = (1..=n).map(|i| ivs[i] as f64 * W[i - 1]).sum(); let w: f64 = W[..n].iter().sum();
            w / tot0.max(tot1)
        };
        out.push(p);
    }
    out
}

pub fn loss_encode(seq: &[Lev]) -> String { format!("case:lossq:{}", seq.iter().map(|e| match e { Lev::A(k) => format!("A{}", k), Lev::N(dt) => format!("N{}", dt), Lev::Reset(l) => format!("R{}", l) }).collect::<Vec<_>>().join(";")) }
pub fn loss_decode(case: &str) -> Option<Vec<Lev>> {
    case.strip_prefix("case:lossq:")?.split(';').filter(|x| !x.is_empty()).map(|x| { let (k, v) = x.split_at(1); Some(match k { "A" => Lev::A(v.parse().ok()?), "N" => Lev::N(v.parse().ok()?), "R" => Lev::Reset(v.parse().ok()?), _ => return None }) }).collect()
}

pub fn run_loss_seq(seq: &[Lev]) -> (Vec<Violation>, u64, Option<String>) {
    let r = guarded(|| {
        let mut v: Vec<Violation> = Vec::new();
        let mut q = LossIntervalQueue::new();
        let expect = loss_ref(seq);
        let mut t = 0u64; let mut h = 0xcbf29ce484222325u64;
        for (k, e) in seq.iter().enumerate() {
            match *e {
                Lev::A(n) => { for _ in 0..n { q.push_ack(); } }
                Lev::N(dt) => { t += dt; q.push_nack(t, LOSS_RTT_MS); }
                // (the queue is reset only on the first loss report, when it holds one interval)
                Lev::Reset(len) => { q.reset(1.0 / len as f64); }
            }
            let p = q.compute_loss_rate();
            h = fnv(h, (p * 1e9) as u64);
            if (p - expect[k]).abs() > 1e-9 * expect[k].max(1e-9) + 1e-12 && v.is_empty() {
                v.push(viol("C14.loss-event-rate", format!("C14.loss-event-rate:{}", if p < expect[k] { "too-low" } else { "too-high" }), format!("after event {} of {:?} (RTT {} ms) the loss event rate is {} where sections 5.2-5.4 of RFC 5348 give {}: the throughput equation is evaluated with a loss event rate that is {}", k, seq, LOSS_RTT_MS, p, expect[k], if p < expect[k] { "too low, so the allowed rate exceeds the equation" } else { "too high" })));
            }
        }
        (v, h)
    });
    match r { Ok((v, h)) => (v, h, None), Err(p) => (vec![], 0xDEAD, Some(p)) }
}

/// All sequences of the given length over: acknowledged frames (1, 7), a loss 40 / 60 ms after the previous loss (inside the event that a loss
/// 100 ms earlier started? - depends on the sum), 99 / 101 ms (either side of one RTT), 250 ms; first letter a loss, optionally a reset after it.
pub fn loss_units(depth: usize, for_c03: bool) -> Vec<Unit> {
    let alpha: Vec<Lev> = vec![Lev::A(1), Lev::A(7), Lev::N(40), Lev::N(60), Lev::N(99), Lev::N(101), Lev::N(250)];
    let mut units: Vec<Unit> = Vec::new();
    for reset in [None, Some(50u32)] {
        for first in 0..alpha.len() {
            for second in 0..alpha.len() {
                let alpha = alpha.clone();
                units.push(Box::new(move |acc: &mut Acc| {
                    let n = alpha.len();
                    let mut idx = vec![0usize; depth]; idx[0] = first; idx[1] = second;
                    loop {
                        let mut seq: Vec<Lev> = vec![Lev::N(10)];
                        if let Some(l) = reset { seq.push(Lev::Reset(l)); }
                        seq.extend(idx.iter().map(|&i| alpha[i]));
                        let (v, h, panic) = run_loss_seq(&seq);
                        acc.evals += 1; acc.transitions += seq.len() as u64; acc.outcomes.insert(h);
                        if let Some(p) = panic { acc.panics += 1; let loc = p.rsplit(" @ ").next().unwrap_or("").to_string();
                            acc.violation(loss_encode(&seq), if for_c03 { viol("C03.panic", format!("C03.panic:loss-intervals:{}", loc), format!("LossIntervalQueue fed with {:?}: {}", seq, p)) } else { viol("C14.aborted-by-panic", format!("C14.aborted-by-panic:{}", loc), format!("LossIntervalQueue fed with {:?}: {}", seq, p)) }); }
                        if !for_c03 { for x in v { acc.violation(loss_encode(&seq), x); } }
                        if first == 2 && second == 5 && idx[2..].iter().all(|&i| i == 1) { acc.sample(format!("loss history {:?}", seq)); }
                        let mut k = depth; let mut done = true;
                        while k > 2 { k -= 1; idx[k] += 1; if idx[k] < n { done = false; break; } idx[k] = 0; }
                        if done { break; }
                    }
                }));
            }
        }
    }
    units
}

// ------------------------------------------------------------------------------------------------
// The whole path on a real sender: frame log -> loss detection -> loss history -> equation
// ------------------------------------------------------------------------------------------------

/// A real sending `HalfConnection` with an endless backlog; the harness plays the receiver: every frame that is not lost is acknowledged
/// `rtt_steps` steps later (one group per frame, window bases following). Frames are lost in bursts: of every `period` consecutive data
/// frames the first `burst` are lost, from the 60th frame on. The loss history that RFC 5348 5.2-5.4 prescribes is computed from the real
/// send times of the lost and delivered frames (a loss belongs to the running loss event unless its frame was sent at least one RTT
/// estimate after the frame that started the event); once 12 loss events are complete, the allowed rate must not exceed the throughput
/// equation for the current RTT estimate and that loss event rate - computed with every interval three frames longer, because the implementation
/// counts a lost frame when it detects the loss - by more than 25 % (merging loss events moves the rate by 40 % and more).
fn link_loss_case(burst: usize, period: usize, dt: u64, rtt_steps: usize) -> (Option<Violation>, u64, Option<String>) {
    use uflow::verif::frame::{AckFrame, AckGroup, Frame};
    use uflow::verif::Serialize;
    use crate::lw::{LwCfg, FS};
    let r = guarded(|| {
        set_time_ms(0); seed(14); set_fuel(5_000_000);
        let cfg = LwCfg { pwin: 4096, fwin: 4096, bw: [2_000_000, 2_000_000], ..LwCfg::small() };
        let mut hc = HalfConnection::new(cfg.half(0));
        let mut now = 0u64; let mut idx = 0usize;
        // (send time, lost) of every data frame in send order; acknowledgements in flight: (due step, frame id, nonce, last packet id + 1)
        let mut sent: Vec<(u64, bool)> = Vec::new();
        let mut inflight: std::collections::VecDeque<(usize, u32, bool, u32)> = Default::default();
        let mut pbase = cfg.pbase[0]; let mut fbase = cfg.fbase[0];
        let mut verdict: Option<Violation> = None; let mut h = 0xcbf29ce484222325u64;
        let mut queued = 0usize;
        for step in 0..6000usize {
            while hc.send_buffer_size() < 40_000 { hc.send(crate::lw::payload(0, 0, queued as u32, 1000), 0, uflow::SendMode::Unreliable); queued += 1; }
            let mut fs = FS(vec![]); hc.flush(&mut fs);
            for bytes in fs.0.iter() {
                if let Some(Frame::DataFrame(df)) = Frame::read(bytes) {
                    let lost = idx >= 60 && (idx - 60) % period < burst;
                    sent.push((now, lost)); idx += 1;
                    if !lost { inflight.push_back((step + rtt_steps, df.sequence_id, df.nonce, df.datagrams.last().map_or(pbase, |d| (d.sequence_id + 1) & 0xFFFFF))); }
                }
            }
            while inflight.front().map_or(false, |x| x.0 <= step) {
                let (_, id, nonce, pnext) = inflight.pop_front().unwrap();
                fbase = id.wrapping_add(1); pbase = pnext;
                hc.handle_ack_frame(AckFrame { frame_window_base_id: fbase, packet_window_base_id: pbase, frame_acks: vec![AckGroup { base_id: id, bitfield: 1, nonce }] });
            }
            now += dt; set_time_ms(now);
            hc.step();
            // reference loss history over the frames whose fate the sender can know by now (sent at least rtt + 4 frames ago)
            let rtt_ms = match hc.rtt_s() { Some(r) => r * 1000.0, None => continue };
            let known = sent.len().saturating_sub(rtt_steps * 4 + 8);
            let mut ivs: Vec<u64> = Vec::new(); let mut ev_start: Option<u64> = None; let mut events = 0usize;
            for &(t, lost) in sent[..known].iter() {
                if lost { if ev_start.map_or(true, |s| t as f64 >= s as f64 + rtt_ms) { ivs.insert(0, 1); ivs.truncate(9); ev_start = Some(t); events += 1; } else { ivs[0] += 1; } }
                else if !ivs.is_empty() { ivs[0] += 1; }
            }
            if events < 12 || ivs.len() < 9 { continue; }
            const W: [f64; 8] = [1.0, 1.0, 1.0, 1.0, 0.8, 0.6, 0.4, 0.2];
            let n = ivs.len() - 1;
            // the implementation counts a lost frame when it detects the loss (three later acknowledgements, or by age): every interval may be
            // up to three frames longer there than in send order; the bound is computed with all intervals lengthened by three
            let tot0: f64 = (0..n).map(|i| (ivs[i] + 3) as f64 * W[i]).sum(); let tot1: f64 = (1..=n).map(|i| (ivs[i] + 3) as f64 * W[i - 1]).sum(); let w: f64 = W[..n].iter().sum();
            let p_ref = w / tot0.max(tot1);
            let x = hc.verif_probe().send_rate;
            let bound = x_bps(rtt_ms / 1000.0, p_ref).max(FLOOR);
            h = fnv(h, (x / 64.0) as u64);
            if x > 1.25 * bound + 1.0 && verdict.is_none() {
                verdict = Some(viol("C14.equation", "C14.equation:link:exceeded".into(), format!("real sender, frames lost in bursts of {} out of every {} (steps of {} ms, acknowledgements {} steps later): at t={} ms, after {} loss events, the allowed rate is {:.0} B/s but the throughput equation for the RTT estimate {:.1} ms and the loss event rate {:.5} of RFC 5348 5.2-5.4 (intervals {:?}) gives {:.0} B/s", burst, period, dt, rtt_steps, now, events, x, rtt_ms, p_ref, ivs, bound)));
            }
        }
        set_fuel(u64::MAX);
        (verdict, h ^ sent.len() as u64)
    });
    set_fuel(u64::MAX);
    match r { Ok((v, h)) => (v, h, None), Err(p) => (None, 0xDEAD, Some(p)) }
}

pub fn link_loss_units(quick: bool) -> Vec<Unit> {
    let mut units: Vec<Unit> = Vec::new();
    let bursts: &[usize] = if quick { &[1, 2, 4, 8] } else { &[1, 2, 3, 4, 6, 8, 12, 16] };
    for &burst in bursts {
        for (dt, rtt_steps) in [(10u64, 5usize), (10, 10), (20, 3), (5, 12)] {
            units.push(Box::new(move |acc: &mut Acc| {
                for period in [burst + 6, burst + 11, burst + 20, burst + 37, 2 * burst + 50] {
                    let (v, h, p) = link_loss_case(burst, period, dt, rtt_steps);
                    let case = format!("case:linkloss:{}:{}:{}:{}", burst, period, dt, rtt_steps);
                    acc.evals += 1; acc.transitions += 6000; acc.outcomes.insert(h);
                    if let Some(p) = p { acc.panics += 1; acc.violation(case.clone(), viol("C14.aborted-by-panic", format!("C14.aborted-by-panic:{}", p.rsplit(" @ ").next().unwrap_or("")), format!("the sender panicked: {}", p))); }
                    if let Some(v) = v { acc.violation(case, v); }
                }
                if burst == 2 && dt == 10 && rtt_steps == 5 { acc.sample(format!("real sender with an endless backlog, {} of every n frames lost (n = {:?}), steps of {} ms, acknowledgements {} steps later, 6000 steps", burst, [burst + 6, burst + 11, burst + 20, burst + 37, 2 * burst + 50], dt, rtt_steps)); }
            }));
        }
    }
    units
}

pub fn build(quick: bool) -> PropRun {
    let plans: Vec<(bool, usize)> = if quick { vec![(false, 5), (true, 3)] } else { vec![(false, 6), (true, 4)] };
    let mut all_units = units(&plans, false);
    all_units.extend(loss_units(if quick { 7 } else { 9 }, false));
    all_units.extend(link_loss_units(quick));
    // on the link: the shared pool of the link world with the RTT sample clause
    let scs = crate::props::from_pool(quick, "C14", crate::lwprops::O_C14RTT);
    PropRun { level: "model_checking", scenarios: scs, units: all_units, replay_case: Some(replay_case), summary: Summary {
        rule: "every sequence of events {frame sent; step with feedback f; step without feedback after gap g} up to the stated length over the boundary alphabet is applied to a fresh real SendRateComp (3 ceilings); after every event rate and RTT estimate are compared with bounds from the RFC 5348 formulas; distinct = distinct final (rate, RTO) trajectory hash".into(),
        bounds: json!({"plans(full_alphabet,length)": plans, "reduced_alphabet": format!("{} letters", alphabet(false).len()), "full_alphabet": format!("{} letters: rtt {{0,1,100,3000}} ms x receive rate {{0,1000,1e6,2^32-1}} x loss {{0,1e-4,0.1,1}} x rate_limited x gap {{1,100}} ms; silence {{0,1,100,5000,1e6}} ms; frame sent; long silences while transmitting (14 x 5 s, 40 x 1000 s, every step checked)", alphabet(true).len()), "ceilings": [1472, 10_000, "2^32-1"]}),
        assumptions: vec!["the loss event rate in force after the step that leaves slow start is the value handed to the reset_loss_rate callback (5 % tolerance of the code's own inverse plus 1 %), the reported value afterwards".into(),
                          "integer rates: tolerance of 1 B/s on every comparison".into()],
        witness_names: vec![], extra: json!({}), exhaustive: true } }
}

pub fn replay_case(case: &str) -> Vec<Violation> {
    if let Some(f) = case.strip_prefix("case:linkloss:") { let v: Vec<u64> = f.split(':').filter_map(|x| x.parse().ok()).collect(); if v.len() == 4 { let (x, _, p) = link_loss_case(v[0] as usize, v[1] as usize, v[2], v[3] as usize); if let Some(p) = p { println!("PANIC inside uflow: {}", p); } return x.into_iter().collect(); } }
    if let Some(seq) = loss_decode(case) { let (v, _, p) = run_loss_seq(&seq); println!("loss history {:?}: reference {:?}", seq, loss_ref(&seq)); if let Some(p) = p { println!("PANIC inside uflow: {}", p); } return v; }
    match decode(case) {
        Some((ceil, seq)) => { let (v, _, p) = run_seq(ceil, &seq, false); println!("ceiling {} events {:?}", ceil, seq); if let Some(p) = p { println!("PANIC inside uflow: {}", p); } v }
        None => vec![],
    }
}

pub fn replay_case_c03(case: &str) -> Vec<Violation> {
    match decode(case) {
        Some((ceil, seq)) => { let (_, _, p) = run_seq(ceil, &seq, true); println!("ceiling {} events {:?}", ceil, seq); match p { Some(p) => { let fuel = p.contains(FUEL_PANIC); let loc = p.rsplit(" @ ").next().unwrap_or("").to_string(); vec![viol(if fuel { "C03.unbounded-work" } else { "C03.panic" }, format!("C03.{}:tfrc:{}", if fuel { "unbounded-work" } else { "panic" }, loc), p)] } None => vec![] } }
        None => vec![],
    }
}
