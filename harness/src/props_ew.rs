//! Scenario sets for the properties decided on the endpoint world (C07, C08, C09, C10, C17, C18).

use crate::lw::viol;
use crate::eprops::*;
use crate::ew::*;
use crate::explore::*;
use crate::report::Summary;
use crate::PropRun;
use serde_json::json;
use std::sync::{Arc, OnceLock};
use uflow::verif::frame::*;
use uflow::verif::Serialize;
use uflow::{EndpointConfig, SendMode};

const A_EW: &[&str] = &[
    "endpoint world: real Server and Client objects on the in-memory UDP socket of feature `verif` (datagram boundaries preserved, WouldBlock when empty, no ICMP), virtual clock, seeded handshake nonces",
    "coverage = all executions with at most d deviations (non-default datagram fates, step spacings, application calls) placed in the deviation window, for the listed scripts and configurations; free choice points are enumerated completely",
    "all datagrams are held by the harness between rounds, so the order in which endpoints step inside a round is irrelevant",
    "build profile: release with debug-assertions and overflow-checks on",
];

fn ew_summary(rule: &str, bounds: serde_json::Value) -> Summary {
    Summary { rule: rule.to_string(), bounds, assumptions: A_EW.iter().map(|s| s.to_string()).collect(), witness_names: ew_witness_names(), extra: json!({}), exhaustive: true }
}

fn sc(tag: &str, cfg: &EwCfg, script: Vec<EwOp>, env: EwEnv, d: usize, oracles: u32) -> EwSpec {
    EwSpec { tag: tag.to_string(), cfg: cfg.clone(), script: Arc::new(script), env, d, oracles, n_raw: 2 }
}

/// Own scenarios plus the scenarios of the other endpoint-world families run with this property's oracle.
fn assemble(own: Vec<EwSpec>, custom: Vec<Scenario>, quick: bool, me: &str, mask: u32) -> Vec<Scenario> {
    // handshake error events are off in the default server configuration: the handshake-heavy families run both ways
    let he0 = |sp: &EwSpec| -> Option<EwSpec> {
        if sp.cfg.handshake_errors && ["full-server", "config.", "version", "overlap", "handshake-fates-full", "ending.vanish", "C10.handshake"].iter().any(|t| sp.tag.contains(t)) {
            let mut x = sp.clone(); x.cfg.handshake_errors = false; x.tag = format!("{}.he0", x.tag); Some(x)
        } else { None }
    };
    let extra: Vec<EwSpec> = own.iter().filter_map(|s| he0(s)).collect();
    let mut scs: Vec<Scenario> = own.into_iter().chain(extra.into_iter()).map(ew_scenario).collect();
    scs.extend(custom);
    for (fam, f) in [("C07", c07_specs as fn(bool) -> Vec<EwSpec>), ("C08", c08_specs), ("C09", c09_specs), ("C10", c10_specs), ("C17", c17_specs)] {
        if fam == me { continue; }
        for mut sp in f(quick) {
            // scenarios in which the applications read their events one step late are for the monitors that do not look at the clock
            if sp.env.late_events && ["C09", "C10", "C17"].contains(&me) { continue; }
            // the timer grid of C10 is large and only interesting to the timer oracle; the others take a cross-section of it
            if fam == "C10" && !(sp.tag.contains("handshake") || sp.tag.contains("blackout")) { continue; }
            sp.oracles = mask; sp.tag = format!("{}.pool.{}", me, sp.tag);
            if let Some(x) = he0(&sp) { scs.push(ew_scenario(x)); }
            scs.push(ew_scenario(sp));
        }
    }
    scs
}

pub fn fw(f: Frame) -> Vec<u8> { f.write().to_vec() }

pub fn echo_script(i: usize) -> Vec<EwOp> {
    vec![at(0, Act::Connect(i)), after_c(i, 1, Act::CSend(i, 0, SendMode::Reliable, 100)), after_s(i, 1, Act::SSend(i, 0, SendMode::Reliable, 60))]
}

// ------------------------------------------------------------------------------------------------
pub fn c08_specs(quick: bool) -> Vec<EwSpec> {
    let mut scs: Vec<EwSpec> = Vec::new();
    let d = 3; let _ = quick;
    let menu = |i: usize| vec![Act::CSend(i, 1, SendMode::Unreliable, 20), Act::CDisconnect(i), Act::CDisconnectNow(i), Act::SSend(i, 1, SendMode::Reliable, 2000), Act::SDisconnect(i), Act::SDisconnectNow(i), Act::SDrop(i), Act::Connect(i), Act::Forget(i), Act::CFlush(i), Act::SFlush];
    let timeouts: &[u64] = if quick { &[3000] } else { &[3000, 20_000] };
    for &t in timeouts {
        let mut cfg = EwCfg::new(1);
        cfg.server.active_timeout_ms = t; cfg.clients[0].active_timeout_ms = t;
        for (sname, script) in [("echo", echo_script(0)), ("echo-then-disconnect", { let mut s = echo_script(0); s.push(after_c(0, 4, Act::CDisconnect(0))); s }), ("server-disconnects", { let mut s = echo_script(0); s.push(after_s(0, 3, Act::SDisconnect(0))); s })] {
            let mut env = EwEnv::basic(if quick { 6 } else { 8 }, 140);
            env.fates = DF_ALL; env.deltas = &[100, 0, 2000, 20_000]; env.app_menu = menu(0); env.fair_delta = 500; env.long_hold = 10;
            if quick { env.fates = DF_BASIC; env.deltas = &[100, 2000, 20_000]; }
            scs.push(sc(&format!("C08.{}", sname), &cfg, script, env, d, EO_C08));
        }
    }
    // applications that keep the event iterator of one step() across their next call of step() and read it afterwards: the stream
    // of events is the same, one step late
    {
        let cfg = EwCfg::new(1);
        let mut script = echo_script(0);
        script.extend(vec![after_s(0, 3, Act::SSend(0, 0, SendMode::Reliable, 21)), after_s(0, 3, Act::SSend(0, 0, SendMode::Reliable, 22)), after_s(0, 4, Act::SSend(0, 0, SendMode::Reliable, 23)), after_c(0, 7, Act::CDisconnect(0))]);
        let mut env = EwEnv::basic(6, 140);
        env.fates = DF_BASIC; env.deltas = &[100, 2000]; env.fair_delta = 500; env.late_events = true;
        scs.push(sc("C08.events-read-one-step-late", &cfg, script, env, 2, EO_C08 | EO_ECHO | EO_C07));
    }
    // a server application that keeps the handle Server::client() gave it for every connection (a session table), to the end of the run
    for (sname, tail) in [("server-disconnects-now", vec![after_s(0, 3, Act::SDisconnectNow(0))]), ("server-disconnects", vec![after_s(0, 3, Act::SDisconnect(0))]), ("client-disconnects", vec![after_c(0, 4, Act::CDisconnect(0))]), ("client-vanishes", vec![after_c(0, 4, Act::Forget(0))]),
                          ("server-disconnects-now-then-reconnect", vec![after_s(0, 3, Act::SDisconnectNow(0)), at(20, Act::Forget(0)), at(22, Act::Connect(0)), at(30, Act::CSend(0, 0, SendMode::Reliable, 33))])] {
        let cfg = EwCfg::new(1);
        let mut script = echo_script(0); script.extend(tail);
        let mut env = EwEnv::basic(6, 140);
        env.dev_start = 3; env.fates = DF_BASIC; env.deltas = &[100, 2000]; env.fair_delta = 500; env.keep_handles = true; env.stop_when_done = false;
        scs.push(sc(&format!("C08.handles-kept.{}", sname), &cfg, script, env, 2, EO_C08));
    }
    // two concurrent clients: application choices on client 0, the second one connects, echoes and disconnects meanwhile
    {
        let mut cfg = EwCfg::new(2);
        cfg.server.active_timeout_ms = 3000; cfg.clients[0].active_timeout_ms = 3000; cfg.clients[1].active_timeout_ms = 3000;
        let mut script = echo_script(0);
        script.extend(vec![at(1, Act::Connect(1)), after_c(1, 1, Act::CSend(1, 0, SendMode::Reliable, 100)), after_s(1, 2, Act::SSend(1, 0, SendMode::Reliable, 60)), after_c(1, 5, Act::CDisconnect(1))]);
        let mut env = EwEnv::basic(if quick { 5 } else { 8 }, 140);
        env.deltas = &[100, 2000]; env.app_menu = menu(0); env.fair_delta = 500;
        if quick { env.fates = DF_LOSS; }
        scs.push(sc("C08.two-clients", &cfg, script, env, d, EO_C08));
    }
    // a server filled exactly to its limits (handshake error events on): duplicated / stale handshake frames of connected addresses
    for (ma, mt, nc) in [(1usize, 1usize, 1usize), (1, 2, 2), (2, 2, 2)] {
        let mut cfg = EwCfg::new(nc); cfg.max_active = ma; cfg.max_total = mt;
        for c in cfg.clients.iter_mut() { c.active_timeout_ms = 3000; } cfg.server.active_timeout_ms = 3000;
        let mut script = echo_script(0);
        if nc > 1 { script.extend(vec![at(1, Act::Connect(1)), after_c(1, 1, Act::CSend(1, 0, SendMode::Reliable, 100))]); }
        script.push(after_c(0, 6, Act::CDisconnect(0)));
        let mut env = EwEnv::basic(if quick { 6 } else { 9 }, 140);
        env.fates = DF_ALL; env.deltas = &[100, 2000]; env.fair_delta = 500; env.long_hold = 4; env.app_menu = vec![Act::SDisconnectNow(0), Act::CDisconnectNow(0), Act::Connect(0)];
        scs.push(sc("C08.full-server", &cfg, script, env, d, EO_C08));
    }
    // a server at its total limit whose only entry is on its way out (closing: the application has kicked a peer that died; closed: the
    // linger after an acknowledged disconnect) while a newcomer asks for a slot, after which the first address comes back: whatever
    // the server does about the newcomer, the first connection's event stream must end before that address is reported again
    for (mname, mid) in [("kicked-dead-peer", vec![at(6, Act::Forget(0)), at(8, Act::SDisconnectNow(0))]), ("kicked-dead-peer-flushing", vec![at(6, Act::Forget(0)), at(7, Act::SSend(0, 0, SendMode::Reliable, 300)), at(8, Act::SDisconnect(0))]),
                         ("client-left", vec![at(8, Act::CDisconnectNow(0)), at(10, Act::Forget(0))]), ("server-closed", vec![at(8, Act::SDisconnectNow(0)), at(12, Act::Forget(0))])] {
        for (ma, mt) in [(1usize, 1usize), (2, 1), (32, 1), (2, 2)] {
            for back in [14usize, 24, 60] {
                let mut cfg = EwCfg::new(3); cfg.max_active = ma; cfg.max_total = mt;
                let mut script = echo_script(0);
                script.extend(mid.clone());
                if mt == 2 { script.push(at(0, Act::Connect(2))); }
                script.extend(vec![at(10, Act::Connect(1)), after_c(1, 1, Act::CSend(1, 0, SendMode::Reliable, 100)), after_c(1, 6, Act::CDisconnectNow(1)), at(back, Act::Connect(0)), at(back + 8, Act::CSend(0, 0, SendMode::Reliable, 70))]);
                let mut env = EwEnv::basic(4, 140);
                env.dev_start = 8; env.fates = DF_LOSS; env.deltas = &[100, 2000]; env.fair_delta = 500; env.stop_when_done = false;
                scs.push(sc(&format!("C08.full-server.entry-on-its-way-out.{}.back{}", mname, back), &cfg, script, env, if quick { 1 } else { 2 }, EO_C08));
            }
        }
    }
    let _ = (d, timeouts);
    scs
}

pub fn c08(quick: bool) -> PropRun {
    let d = 3;
    let timeouts: &[u64] = if quick { &[3000] } else { &[3000, 20_000] };
    let scs = assemble(c08_specs(quick), vec![config_extremes_scenario("C08", if std::env::var("VERIF_ALLMASK").is_ok() { EO_C07 | EO_C08 | EO_C09 | EO_C10 | EO_C13 | EO_C20 | EO_C12 | EO_C17 } else { EO_C08 }, if quick { 2 } else { 3 })], quick, "C08", EO_C08);
    PropRun { level: "model_checking", scenarios: scs, units: vec![], replay_case: None, summary: ew_summary(
        "every explored execution's event streams (client: per Client object; server: per address, with Server::drop as a silent end) are run through the reference automaton Connect? Receive* (Disconnect|Error)?",
        json!({"d": d, "application_menu": "send / disconnect / disconnect_now / drop / reconnect from the same address / forget / flush, on either side, at every round of the window", "fates": "deliver/drop/dup/hold2/stale copy 10 rounds later on every datagram", "deltas_ms": [100, 0, 2000, 20000], "active_timeouts_ms": timeouts})) }
}

// ------------------------------------------------------------------------------------------------
pub fn c07_parts(quick: bool) -> (Vec<EwSpec>, Vec<Scenario>) {
    let mut custom: Vec<Scenario> = Vec::new();
    let mut scs: Vec<EwSpec> = Vec::new();
    let o = EO_C07 | EO_C08 | EO_ECHO;
    // (a) complete enumeration of the fates of the handshake datagrams (free choices), connect-echo-disconnect-reconnect-echo
    let reconnect = vec![at(0, Act::Connect(0)), after_c(0, 1, Act::CSend(0, 0, SendMode::Reliable, 100)), after_s(0, 1, Act::SSend(0, 0, SendMode::Reliable, 60)),
                         at(14, Act::CDisconnectNow(0)), at(18, Act::Forget(0)), at(19, Act::Connect(0)), at(24, Act::CSend(0, 0, SendMode::Reliable, 101))];
    for nonces in [vec![], vec![0xFFFF_FFFE, 0xFFFF_FFFF, 0, 1], vec![0x000F_FFFF, 0x000F_FFFF, 5, 5]] {
        let mut cfg = EwCfg::new(1); cfg.nonces = nonces;
        let mut env = EwEnv::basic(if quick { 4 } else { 6 }, 120);
        env.fates = if quick { DF_BASIC } else { DF_ALL }; env.fate_types = &[0, 1, 2, 3]; env.fates_free = true; env.deltas = &[100]; env.fair_delta = 500; env.long_hold = 20;
        scs.push(sc("C07.handshake-fates-full", &cfg, reconnect.clone(), env.clone(), 0, o & !EO_ECHO));
        // d-bounded over everything (handshake and later frames), with stale copies landing in the second connection
        let mut env2 = EwEnv::basic(if quick { 5 } else { 8 }, 120);
        env2.fates = DF_ALL; env2.deltas = &[100, 2000]; env2.fair_delta = 500; env2.long_hold = 20;
        scs.push(sc("C07.reconnect", &cfg, reconnect.clone(), env2, 3, o & !EO_ECHO));
        let mut env3 = EwEnv::basic(if quick { 5 } else { 8 }, 80);
        env3.fates = DF_BASIC; env3.fate_types = &[0, 1, 2, 3]; env3.deltas = &[100, 2000];
        scs.push(sc("C07.echo", &cfg, echo_script(0), env3, 3, o));
    }
    // (b) two simultaneous handshakes
    {
        let cfg = EwCfg::new(2);
        let mut script = echo_script(0); script.extend(vec![at(0, Act::Connect(1)), after_c(1, 1, Act::CSend(1, 0, SendMode::Reliable, 100)), after_s(1, 1, Act::SSend(1, 0, SendMode::Reliable, 60))]);
        let mut env = EwEnv::basic(if quick { 4 } else { 6 }, 80);
        env.fates = DF_BASIC; env.fate_types = &[0, 1, 2, 3]; env.deltas = &[100, 2000];
        scs.push(sc("C07.two-clients", &cfg, script, env, 3, o));
    }
    // (c) configuration pairs
    let pairs: Vec<(&str, usize, usize, usize, usize)> = vec![ // (name, client max_packet, client alloc, server max_packet, server alloc)
        ("equal", 10_000, 10_000, 10_000, 10_000), ("client-packet-too-big", 20_000, 20_000, 10_000, 10_000), ("server-packet-too-big", 5_000, 5_000, 10_000, 10_000),
        ("both-fit-asymmetric", 1_400, 6_000, 5_000, 2_000), ("client-packet-just-fits", 10_000, 10_000, 10_000, 10_000 + 0), ("client-packet-one-over", 10_001, 20_000, 10_000, 10_000),
    ];
    for (name, cp, ca, sp, sa) in pairs {
        let mut cfg = EwCfg::new(1);
        cfg.clients[0].max_packet_size = cp; cfg.clients[0].max_receive_alloc = ca; cfg.server.max_packet_size = sp; cfg.server.max_receive_alloc = sa;
        // rates differ as well, so that every negotiated quantity has a distinct expected value
        if name == "both-fit-asymmetric" { cfg.clients[0].max_send_rate = 500_000; cfg.clients[0].max_receive_rate = 300_000; cfg.server.max_send_rate = 400_000; cfg.server.max_receive_rate = 200_000; }
        let mismatch = cp > sa || sp > ca;
        // three maximum-size packets at once in each direction: together they exceed the peer's receive allocation in the asymmetric
        // pairs, so the sender must pace them by the limit it was actually told
        let script = if mismatch { vec![at(0, Act::Connect(0))] } else {
            let mut v = vec![at(0, Act::Connect(0))];
            v.push(after_c(0, 1, Act::CSend(0, 0, SendMode::Reliable, cp))); v.push(after_s(0, 1, Act::SSend(0, 0, SendMode::Reliable, sp)));
            // once the first exchange has given both ends an RTT and a rate, a burst that would overrun the peer's allocation if the
            // sender used any limit but the one it was told
            if name == "both-fit-asymmetric" { for chn in 1..5u8 { v.push(after_c(0, 30, Act::CSend(0, chn, SendMode::Reliable, cp - chn as usize))); v.push(after_s(0, 30, Act::SSend(0, chn, SendMode::Reliable, sp - chn as usize))); } }
            v };
        let mut env = EwEnv::basic(4, 900);
        env.fates = DF_BASIC; env.fate_types = &[0, 1, 2, 3]; env.deltas = &[100]; env.fair_delta = 100;
        scs.push(sc(&format!("C07.config.{}", name), &cfg, script, env, if quick { 1 } else { 2 }, o));
    }
    // (d) forged handshake frames: differential against the run without the forgery
    for (sname, script) in [("established", reconnect.clone()), ("pending-syn-lost", vec![at(0, Act::Connect(0)), after_c(0, 1, Act::CSend(0, 0, SendMode::Reliable, 100))])] {
        let mut cfg = EwCfg::new(1); cfg.nonces = vec![0x1111_1111, 0x2222_2222, 0x3333_3333, 0x4444_4444];
        let mut env = EwEnv::basic(0, if sname == "established" { 90 } else { 40 });
        env.fates = DF_NONE; env.deltas = &[100]; env.fair_delta = 500; env.stop_when_done = false;
        if sname != "established" { env.lose_syn = 2; }
        let window = (if quick { 30 } else { 60 }).min(env.max_rounds - 2);
        custom.push(forger_scenario(&format!("C07.forged.{}", sname), cfg, script, env, window));
    }
    custom.push(raw_handshake_scenario("C07", 200));
    // raw version mismatch
    {
        let cfg = EwCfg::new(1);
        let syn = |v: u8| fw(Frame::HandshakeSynFrame(HandshakeSynFrame { version: v, nonce: 77, max_receive_rate: 1000, max_packet_size: 100, max_receive_alloc: 100_000 }));
        let mut script = echo_script(0);
        script.push(at(2, Act::Raw(0, syn(2)))); script.push(at(3, Act::Raw(0, syn(4)))); script.push(at(4, Act::Raw(1, syn(uflow::PROTOCOL_VERSION))));
        let mut env = EwEnv::basic(3, 80); env.fates = DF_LOSS; env.deltas = &[100];
        scs.push(EwSpec { tag: "C07.version".into(), cfg, script: Arc::new(script), env, d: 1, oracles: o | EO_C18, n_raw: 2 });
    }
    (scs, custom)
}

pub fn c07_specs(quick: bool) -> Vec<EwSpec> { c07_parts(quick).0 }


/// A raw peer that conducts the handshake itself: a full-size SYN of some protocol version, then (reading the nonce the server issued
/// to it from the wire of an identical first run; the world is deterministic) an ACK carrying that nonce, a neighbour of it, an extreme
/// value, or none. The server application greets whoever it is told has connected. Judged: a SYN of a foreign version is refused (no
/// SYN-ACK, no Connect); Connect for the raw address only after the exact nonce came back; the byte ledger of C18.
pub fn raw_handshake_scenario(tag: &str, greet: usize) -> Scenario {
    let name = format!("{}.raw-handshake|greet{}|versions3|he2|acks7+4-frames-built-from-its-own-nonce|waits2", tag, greet);
    let tag_owned = tag.to_string();
    let run = move |ch: &mut Chooser| -> ExecResult {
        let version = [uflow::PROTOCOL_VERSION, uflow::PROTOCOL_VERSION.wrapping_add(1), 0][ch.free(3)];
        let he = ch.free(2) == 1;
        let variant = ch.free(11);
        let wait = [1usize, 5][ch.free(2)];
        let mut cfg = EwCfg::new(1); cfg.handshake_errors = he; cfg.greet = greet;
        let syn = { let mut b = fw(Frame::HandshakeSynFrame(HandshakeSynFrame { version, nonce: 0x0BAD_CAFE, max_receive_rate: 1_000_000, max_packet_size: 1000, max_receive_alloc: 1_000_000 })); b.resize(1472, 0); b };
        // the padding of a connection request is part of the datagram, not of the frame: fw() of a SYN already yields 1472 bytes when the library pads; resize is a no-op then
        let mut script: Vec<EwOp> = vec![at(2, Act::Raw(0, syn.clone()))];
        let mut env = EwEnv::basic(0, 2 + wait + 60);
        env.fates = DF_NONE; env.deltas = &[500]; env.fair_delta = 500; env.stop_when_done = false;
        let mut c0 = Chooser::new(vec![], vec![]);
        let first = run_ew(&cfg, &script, &env, &mut c0);
        let issued: Option<u32> = first.wire.iter().filter(|d| d.src == saddr() && d.dst == raddr(0)).find_map(|d| if let Some(Frame::HandshakeSynAckFrame(s)) = &d.frame { Some(s.nonce) } else { None });
        let ack_nonce: Option<u32> = match (variant, issued) {
            (0, _) => None,
            (1, Some(n)) => Some(n),
            (2, Some(n)) => Some(n.wrapping_add(1)),
            (3, Some(n)) => Some(n.wrapping_sub(1)),
            (4, _) => Some(0),
            (5, _) => Some(0xFFFF_FFFF),
            (6, _) => Some(0x0BAD_CAFE),
            _ => None,
        };
        if let Some(a) = ack_nonce { script.push(at(2 + wait, Act::Raw(0, fw(Frame::HandshakeAckFrame(HandshakeAckFrame { nonce_ack: a }))))); }
        // instead of an ACK: frames of an established connection that the peer can build from what it knows itself (its own nonce is the
        // first frame id and, masked, the first packet id of its direction)
        let own = 0x0BAD_CAFEu32;
        let other: Option<Vec<u8>> = match variant {
            7 => Some(fw(Frame::DataFrame(DataFrame { sequence_id: own, nonce: false, datagrams: vec![Datagram { sequence_id: own & 0xFFFFF, channel_id: 0, window_parent_lead: 0, channel_parent_lead: 0, fragment_id: 0, fragment_id_last: 0, data: vec![1, 2, 3].into() }] }))),
            8 => Some(fw(Frame::DataFrame(DataFrame { sequence_id: own, nonce: true, datagrams: vec![] }))),
            9 => Some(fw(Frame::SyncFrame(SyncFrame { next_frame_id: Some(own.wrapping_add(1)), next_packet_id: Some((own & 0xFFFFF) + 1) }))),
            10 => Some(fw(Frame::AckFrame(AckFrame { frame_window_base_id: issued.unwrap_or(0), packet_window_base_id: issued.unwrap_or(0) & 0xFFFFF, frame_acks: vec![] }))),
            _ => None,
        };
        if let Some(b) = other { script.push(at(2 + wait, Act::Raw(0, b.clone()))); script.push(at(3 + wait, Act::Raw(0, b))); }
        let mut c1 = Chooser::new(vec![], vec![]);
        let tr = run_ew(&cfg, &script, &env, &mut c1);
        if crate::lwprops::verbose() { print_ew(&cfg, &tr); }
        let n = cfg.clients.len();
        let mut violations = Vec::new();
        let what = format!("raw peer: SYN version {} (own {}), handshake errors {}, ACK {:x?} {} rounds later (issued nonce {:x?})", version, uflow::PROTOCOL_VERSION, he, ack_nonce, wait, issued);
        let synacks = tr.wire.iter().filter(|d| d.src == saddr() && d.dst == raddr(0) && matches!(&d.frame, Some(Frame::HandshakeSynAckFrame(_)))).count();
        let connects = tr.sev[n].iter().filter(|e| e.ev == Ev::Connect).count();
        if version != uflow::PROTOCOL_VERSION {
            if synacks > 0 { violations.push(viol("C07.version", "C07.version:syn-ack-for-foreign-version".into(), format!("{}: the server answered a connection request of a foreign protocol version with {} SYN-ACK(s)", what, synacks))); }
            if connects > 0 { violations.push(viol("C07.version", "C07.version:connect-for-foreign-version".into(), format!("{}: the server reported Connect for a peer of a foreign protocol version", what))); }
            let errs = tr.wire.iter().filter(|d| d.src == saddr() && d.dst == raddr(0)).filter(|d| matches!(&d.frame, Some(Frame::HandshakeErrorFrame(e)) if e.error == HandshakeErrorType::Version)).count();
            if he && errs == 0 { violations.push(viol("C07.version", "C07.version:no-error-reply".into(), format!("{}: no Version error was sent although handshake errors are enabled", what))); }
        } else {
            let exact = ack_nonce.is_some() && ack_nonce == issued;
            if connects > 0 && !exact { violations.push(viol("C07.server-connect", "C07.server-connect:raw".into(), format!("{}: the server reported Connect for an address that never returned the nonce it was sent", what))); }
            if exact && connects != 1 { violations.push(viol("C07.server-connect", "C07.server-connect:raw-honest".into(), format!("{}: the nonce came back but the server reported {} Connect events", what, connects))); }
        }
        violations.extend(oracle_c18(&cfg, &tr, 1));
        // the scenario serves C07 and C18: each reports the clauses of its own property
        violations.retain(|v| v.clause.starts_with(&tag_owned));
        let replies = tr.wire.iter().filter(|d| d.src == saddr() && d.dst == raddr(0)).count() as u64;
        ExecResult { violations, panic: None, outcome: crate::explore::hash_bytes(ew_outcome(&tr) ^ replies << 20 ^ (connects as u64) << 40, what.as_bytes()), states: ew_states(&tr), transitions: tr.obs.len() as u64, witnesses: 0,
                     sample: if variant == 1 && wait == 1 { Some(format!("{} -> {} SYN-ACKs, {} Connect, {} datagrams to the raw address", what, synacks, connects, replies)) } else { None } }
    };
    Scenario { name, d: 0, run: Box::new(run) }
}


/// C04 at the public API: packets of 0, 1, the fragment boundaries and exactly max_packet_size bytes through Client::send and
/// RemoteClient::send (the size checks of the two differ from those of HalfConnection), both directions, Reliable and Unreliable, on a
/// loss-free network: each arrives once, byte-identical, in order, and no datagram on the wire exceeds 1472 bytes.
pub fn c04_api_scenario(max_packet: usize) -> Scenario {
    let name = format!("C04.api-sizes|max_packet_size {}|both directions|R and U", max_packet);
    let run = move |_ch: &mut Chooser| -> ExecResult {
        let mut cfg = EwCfg::new(1);
        cfg.server.max_packet_size = max_packet; cfg.clients[0].max_packet_size = max_packet;
        cfg.server.max_receive_alloc = cfg.server.max_receive_alloc.max(max_packet); cfg.clients[0].max_receive_alloc = cfg.clients[0].max_receive_alloc.max(max_packet);
        let mut sizes: Vec<usize> = vec![0, 1, 1447, 1448, 1449, 2896, 2897, max_packet - 1, max_packet];
        sizes.retain(|s| *s <= max_packet); sizes.dedup();
        let mut script: Vec<EwOp> = vec![at(0, Act::Connect(0))];
        for (k, &sz) in sizes.iter().enumerate() {
            for (chn, mode) in [(0u8, SendMode::Reliable), (1u8, SendMode::Unreliable)] {
                script.push(after_c(0, 1 + 3 * k, Act::CSend(0, chn, mode, sz)));
                script.push(after_s(0, 1 + 3 * k, Act::SSend(0, chn, mode, sz)));
            }
        }
        let mut env = EwEnv::basic(0, 3 * sizes.len() + 400);
        env.fates = DF_NONE; env.deltas = &[20]; env.fair_delta = 20; env.stop_when_done = false;
        let mut c0 = Chooser::new(vec![], vec![]);
        let tr = run_ew(&cfg, &script, &env, &mut c0);
        if crate::lwprops::verbose() { print_ew(&cfg, &tr); }
        let mut violations = Vec::new();
        for d in tr.wire.iter() { if d.bytes.len() > 1472 { violations.push(viol("C04.wire", "C04.wire:api".into(), format!("a datagram of {} bytes was sent from {}", d.bytes.len(), d.src))); break; } }
        for dir in 0..2usize {
            for chn in 0..2u8 {
                let mut expected: Vec<Vec<u8>> = Vec::new();
                for (k, &sz) in sizes.iter().enumerate() { expected.push(ew_payload(dir, 0, chn, k as u32, sz).to_vec()); }
                let evs = if dir == 0 { &tr.sev[0] } else { &tr.cev[0] };
                // the two channels are told apart by their payload headers; sizes below the header length only by position, so compare the
                // whole stream of this direction restricted to payloads of this channel's list
                let got: Vec<&Vec<u8>> = evs.iter().filter_map(|e| if let Ev::Receive(d) = &e.ev { Some(d) } else { None }).filter(|d| expected.iter().any(|x| x == *d)).collect();
                let mut pos = 0usize;
                for x in expected.iter() {
                    match got[pos.min(got.len())..].iter().position(|g| *g == x) { Some(p) => pos += p + 1, None => { violations.push(viol("C04.api", "C04.api:missing-or-altered".into(), format!("{}: the packet of {} bytes sent on channel {} did not arrive byte-identical and in order ({} packets of that channel's sizes arrived)", if dir == 0 { "client -> server" } else { "server -> client" }, x.len(), chn, got.len()))); break; } }
                }
            }
        }
        ExecResult { violations, panic: None, outcome: ew_outcome(&tr), states: ew_states(&tr), transitions: tr.obs.len() as u64, witnesses: 0, sample: Some(format!("sizes {:?} each way, Reliable and Unreliable: {} Receive events at the server, {} at the client", sizes, tr.sev[0].iter().filter(|e| matches!(e.ev, Ev::Receive(_))).count(), tr.cev[0].iter().filter(|e| matches!(e.ev, Ev::Receive(_))).count())) }
    };
    Scenario { name, d: 0, run: Box::new(run) }
}


/// C13 at the endpoints: asymmetric rate limits on either side, a backlog in both directions on a loss-free network; the ceiling of each
/// direction is min(sender's max_send_rate, receiver's max_receive_rate) as configured, not as whatever the handshake made of it.
pub fn c13_endpoint_scenario() -> Scenario {
    let name = "C13.endpoint-ceilings|configs5|cadence20.100|backlog up or down".to_string();
    let run = move |ch: &mut Chooser| -> ExecResult {
        // (server send, server receive, client send, client receive)
        let configs: [(usize, usize, usize, usize); 5] = [(2_000_000, 20_000, 2_000_000, 2_000_000), (2_000_000, 2_000_000, 2_000_000, 20_000), (50_000, 50_000, 10_000, 1_000_000), (1_000_000, 1472, 1_000_000, 3000), (30_000, 2_000_000, 2_000_000, 2_000_000)];
        let k = ch.free(configs.len());
        let cad = [20u64, 100][ch.free(2)];
        // one direction carries the backlog (with one in each direction from a cold start both crawl at about 1 kB/s and no ceiling binds)
        let up_dir = ch.free(2) == 0;
        let (ss, sr, cs, cr) = configs[k];
        let mut cfg = EwCfg::new(1);
        cfg.server.max_send_rate = ss; cfg.server.max_receive_rate = sr; cfg.clients[0].max_send_rate = cs; cfg.clients[0].max_receive_rate = cr;
        let c_up = cs.min(sr); let c_down = ss.min(cr);
        // about 8 s worth of data each way (at least 3 packets), in packets of 1400 bytes
        let n_up = ((c_up * 8 / 1400).max(3)).min(400); let n_down = ((c_down * 8 / 1400).max(3)).min(400);
        let mut script: Vec<EwOp> = vec![at(0, Act::Connect(0))];
        let (n_up, n_down) = if up_dir { (n_up, 1) } else { (1, n_down) };
        for j in 0..n_up { script.push(after_c(0, 1, Act::CSend(0, (j % 2) as u8, if j % 2 == 0 { SendMode::Reliable } else { SendMode::Unreliable }, 1400))); }
        for j in 0..n_down { script.push(after_s(0, 1, Act::SSend(0, (j % 2) as u8, if j % 2 == 0 { SendMode::Reliable } else { SendMode::Unreliable }, 1400))); }
        let rounds = (12_000 / cad) as usize;
        let mut env = EwEnv::basic(0, rounds);
        env.fates = DF_NONE; env.deltas = leak_deltas(cad, &[]); env.fair_delta = cad; env.stop_when_done = false;
        let mut c0 = Chooser::new(vec![], vec![]);
        let tr = run_ew(&cfg, &script, &env, &mut c0);
        if crate::lwprops::verbose() { print_ew(&cfg, &tr); }
        let violations = oracle_c13_ew(&cfg, &tr);
        let up: usize = tr.wire.iter().filter(|d| d.src == caddr(0)).map(|d| d.bytes.len()).sum(); let down: usize = tr.wire.iter().filter(|d| d.dst == caddr(0)).map(|d| d.bytes.len()).sum();
        ExecResult { violations, panic: None, outcome: ew_outcome(&tr) ^ (up as u64) << 16 ^ (down as u64) << 40, states: ew_states(&tr), transitions: tr.obs.len() as u64, witnesses: 0,
                     sample: Some(format!("server send/receive {}/{} B/s, client send/receive {}/{} B/s, steps every {} ms, backlog {}: ceilings {} up, {} down; {} B up and {} B down in 12 s", ss, sr, cs, cr, cad, if up_dir { "client -> server" } else { "server -> client" }, c_up, c_down, up, down)) }
    };
    Scenario { name, d: 0, run: Box::new(run) }
}


/// Configuration extremes: every field of either endpoint's `EndpointConfig` (and the server's two connection limits) set to a boundary
/// value of its type or of the checks in `is_valid()` - one field at a time (d = 1) or two (d = 2); every configuration used is one that
/// `Config::is_valid()` accepts. A short session (handshake, Reliable / Unreliable / Persistent packets both ways including one of the
/// largest size both ends admit, flushing disconnect) runs on a loss-free network. `mask` selects the monitors.
pub fn config_extremes_scenario(tag: &str, mask: u32, d: usize) -> Scenario {
    const RATES: &[usize] = &[1, 23, 1472, u32::MAX as usize - 1, u32::MAX as usize, 1 << 32, (1 << 32) + 3000, usize::MAX];
    const PSIZES: &[usize] = &[1, 1448, 1449, 65_536, uflow::MAX_PACKET_SIZE];
    const ALLOCS: &[usize] = &[1, 1448, 999_999, 1_000_001, u32::MAX as usize, 1 << 32, usize::MAX];
    const KAS: &[u64] = &[0, 1, u64::MAX];
    // a time-out of 0 ms ends the connection in the step that establishes it; that degenerate value is run with the panic oracle only (mask 0)
    let tos: &'static [u64] = if mask == 0 { &[0, 1, 2500, 1 << 32, u64::MAX] } else { &[1, 2500, 1 << 32, u64::MAX] };
    let name = format!("{}.config-extremes|rates{:?}|packet{:?}|alloc{:?}|keepalive{:?}off|timeout{:?}|limits1|d{}", tag, RATES, PSIZES, ALLOCS, KAS, tos, d);
    let run = move |ch: &mut Chooser| -> ExecResult {
        let mut cfg = EwCfg::new(1);
        let mut desc: Vec<String> = Vec::new();
        for side in 0..2 {
            let who = if side == 0 { "server" } else { "client" };
            let ec: &mut EndpointConfig = if side == 0 { &mut cfg.server } else { &mut cfg.clients[0] };
            let k = ch.choose(RATES.len() + 1); if k > 0 { ec.max_send_rate = RATES[k - 1]; desc.push(format!("{} max_send_rate {}", who, RATES[k - 1])); }
            let k = ch.choose(RATES.len() + 1); if k > 0 { ec.max_receive_rate = RATES[k - 1]; desc.push(format!("{} max_receive_rate {}", who, RATES[k - 1])); }
            let k = ch.choose(PSIZES.len() + 1); if k > 0 { ec.max_packet_size = PSIZES[k - 1]; desc.push(format!("{} max_packet_size {}", who, PSIZES[k - 1])); }
            let k = ch.choose(ALLOCS.len() + 1); if k > 0 { ec.max_receive_alloc = ALLOCS[k - 1]; desc.push(format!("{} max_receive_alloc {}", who, ALLOCS[k - 1])); }
            let k = ch.choose(KAS.len() + 2); if k > 0 { if k - 1 < KAS.len() { ec.keepalive_interval_ms = KAS[k - 1]; desc.push(format!("{} keepalive_interval_ms {}", who, KAS[k - 1])); } else { ec.keepalive = false; desc.push(format!("{} keepalive off", who)); } }
            let k = ch.choose(tos.len() + 1); if k > 0 { ec.active_timeout_ms = tos[k - 1]; desc.push(format!("{} active_timeout_ms {}", who, tos[k - 1])); }
        }
        let k = ch.choose(3); if k == 1 { cfg.max_total = 1; cfg.max_active = 1; desc.push("server limits 1/1".into()); } else if k == 2 { cfg.max_total = usize::MAX; cfg.max_active = usize::MAX; desc.push("server limits usize::MAX".into()); }
        // the largest packet both ends admit (the receiver's allocation is at least its sender's default packet size in every combination above)
        let up = cfg.clients[0].max_packet_size.min(3000); let down = cfg.server.max_packet_size.min(3000);
        let script: Vec<EwOp> = vec![at(0, Act::Connect(0)),
            after_c(0, 1, Act::CSend(0, 0, SendMode::Reliable, 1.min(up))), after_c(0, 1, Act::CSend(0, 1, SendMode::Unreliable, 50.min(up))), after_c(0, 2, Act::CSend(0, 0, SendMode::Reliable, up)),
            after_s(0, 1, Act::SSend(0, 0, SendMode::Reliable, 100.min(down))), after_s(0, 1, Act::SSend(0, 2, SendMode::Persistent, 60.min(down))), after_s(0, 2, Act::SSend(0, 0, SendMode::Reliable, down)),
            after_c(0, 60, Act::CDisconnect(0))];
        let mut env = EwEnv::basic(0, 400);
        env.fates = DF_NONE; env.deltas = &[100]; env.fair_delta = 100;
        let spec = EwSpec { tag: "config-extremes".into(), cfg: cfg.clone(), script: Arc::new(script), env: env.clone(), d: 0, oracles: mask, n_raw: 0 };
        let mut c0 = Chooser::new(vec![], vec![]);
        let tr = run_ew(&cfg, &spec.script, &env, &mut c0);
        if crate::lwprops::verbose() { print_ew(&cfg, &tr); }
        let mut violations = eval_ew(&spec, &tr);
        for v in violations.iter_mut() { v.detail = format!("[{}] {}", desc.join(", "), v.detail); }
        ExecResult { violations, panic: None, outcome: ew_outcome(&tr), states: ew_states(&tr), transitions: tr.obs.len() as u64, witnesses: ew_witnesses(&tr) << 32,
                     sample: if desc.len() == 2 || ch.taken.iter().all(|&c| c == 0) { Some(format!("configuration [{}]: {} rounds, {} datagrams, events {:?}", desc.join(", "), tr.rounds, tr.wire.len(), tr.cev.iter().chain(tr.sev.iter()).flatten().map(|e| ev_name(&e.ev)).collect::<Vec<_>>())) } else { None } }
    };
    Scenario { name, d, run: Box::new(run) }
}

/// C12 at the API: TimeSensitive and Unreliable packets handed to Client::send while the client is still connecting (they wait in the
/// pending client; the handshake datagrams are held, lost or delivered in every combination), right after Connect, and by the server.
pub fn c12_api_specs(quick: bool) -> Vec<EwSpec> {
    let mut v = Vec::new();
    use SendMode::*;
    for (name, first) in [("ts-first", TimeSensitive), ("unreliable-first", Unreliable)] {
        let cfg = EwCfg::new(1);
        let second = if first == TimeSensitive { Unreliable } else { TimeSensitive };
        let script = vec![at(0, Act::Connect(0)), at(0, Act::CSend(0, 0, first, 40)), at(1, Act::CSend(0, 0, second, 41)), at(2, Act::CSend(0, 1, TimeSensitive, 42)),
                          after_c(0, 1, Act::CSend(0, 2, TimeSensitive, 43)), after_c(0, 1, Act::CSend(0, 2, Unreliable, 44)), after_s(0, 1, Act::SSend(0, 0, TimeSensitive, 45)), after_s(0, 2, Act::SSend(0, 0, Unreliable, 46))];
        let mut env = EwEnv::basic(6, 60);
        env.fates = &[DFate::Deliver, DFate::Hold2, DFate::Drop, DFate::HoldLong]; env.fate_types = &[0, 1, 2]; env.fates_free = true; env.long_hold = 5; env.deltas = &[100]; env.fair_delta = 100; env.stop_when_done = false;
        v.push(EwSpec { tag: format!("C12.api.pending-client.{}", name), cfg, script: Arc::new(script), env, d: if quick { 0 } else { 1 }, oracles: EO_C12 | EO_C08, n_raw: 0 });
    }
    // several clients on one server: while one connection ends (disconnect by either side, drop, a vanished client timing out) the server
    // application hands an Unreliable and a TimeSensitive packet to each of the others in the same round (before the first RTT sample a
    // flush admits one datagram, so the TimeSensitive one cannot start and must never be transmitted); every order of connecting
    for (ename, ending) in [("client-disconnects", Act::CDisconnectNow(0)), ("server-disconnects", Act::SDisconnectNow(0)), ("server-drops", Act::SDrop(0)), ("client-vanishes", Act::Forget(0))] {
        for order in 0..3usize {
            let mut cfg = EwCfg::new(3);
            for c in cfg.clients.iter_mut() { c.active_timeout_ms = 3000; } cfg.server.active_timeout_ms = 3000;
            // the client whose connection ends connects first, second or last
            let mut script: Vec<EwOp> = (0..3usize).map(|i| at(if i == 0 { order } else if i <= order { i - 1 } else { i }, Act::Connect(i))).collect();
            script.push(at(8, ending.clone()));
            for r in [8usize, 9, 10, 38, 39, 40, 41] { for i in 1..3usize { script.push(at(r, Act::SSend(i, 0, Unreliable, 40 + r))); script.push(at(r, Act::SSend(i, 0, TimeSensitive, 140 + r))); } }
            let mut env = EwEnv::basic(5, 60);
            env.fates = DF_BASIC; env.fate_types = &[4, 5]; env.deltas = &[100, 0, 2000]; env.dev_start = 7; env.fair_delta = 100; env.stop_when_done = false;
            v.push(EwSpec { tag: format!("C12.api.three-clients.{}.{}", ename, order), cfg, script: Arc::new(script), env, d: if quick { 2 } else { 3 }, oracles: EO_C12 | EO_C08, n_raw: 0 });
        }
    }
    v
}

pub fn c07(quick: bool) -> PropRun {
    let (own, mut custom) = c07_parts(quick);
    custom.push(config_extremes_scenario("C07", EO_C07 | EO_C08, if quick { 2 } else { 3 }));
    let scs = assemble(own, custom, quick, "C07", EO_C07 | EO_C08);
    PropRun { level: "model_checking", scenarios: scs, units: vec![], replay_case: None, summary: ew_summary(
        "handshake ledger over every explored execution: Connect only after the matching nonce was delivered, one Connect per handshake, first data frames start at the exchanged nonces and the echo completes, incompatible configurations are refused with Error(Config); forged handshake frames are checked differentially against the same run without the forgery",
        json!({"handshake_fates": "complete enumeration over SYN/SYN-ACK/ACK/error datagrams (deliver/drop/dup/hold/stale copy)", "d_other": 3, "forced_nonces": ["seeded", "2^32-2, 2^32-1, 0, 2^32-1", "equal nonces on both sides"], "forged_alphabet": "SYN other nonce / other version, ACK wrong nonce, SYN-ACK, error frames of all three kinds from the client's address; SYN-ACK with wrong nonce_ack, error frames with wrong nonce_ack, SYN, ACK from the server's address; at every round"})) }
}

fn forged_alphabet() -> Vec<(&'static str, bool, Vec<u8>)> {
    // (name, to_client, bytes)
    let syn = |v: u8, n: u32| fw(Frame::HandshakeSynFrame(HandshakeSynFrame { version: v, nonce: n, max_receive_rate: 1_000_000, max_packet_size: 1000, max_receive_alloc: 1_000_000 }));
    let synack = |na: u32, n: u32| fw(Frame::HandshakeSynAckFrame(HandshakeSynAckFrame { nonce_ack: na, nonce: n, max_receive_rate: 1_000_000, max_packet_size: 1000, max_receive_alloc: 1_000_000 }));
    let ack = |n: u32| fw(Frame::HandshakeAckFrame(HandshakeAckFrame { nonce_ack: n }));
    let err = |n: u32, e: HandshakeErrorType| fw(Frame::HandshakeErrorFrame(HandshakeErrorFrame { nonce_ack: n, error: e }));
    vec![
        ("spoofed SYN, other nonce", false, syn(uflow::PROTOCOL_VERSION, 0x9999_9999)),
        ("spoofed SYN, other version", false, syn(1, 0x9999_9999)),
        ("spoofed ACK, wrong nonce", false, ack(0x9999_9999)),
        ("spoofed ACK, nonce 0", false, ack(0)),
        ("spoofed ACK, client's own nonce", false, ack(0x1111_1111)),
        ("spoofed SYN-ACK", false, synack(0x2222_2222, 0x9999_9999)),
        ("spoofed error", false, err(0x2222_2222, HandshakeErrorType::ServerFull)),
        ("forged SYN-ACK, wrong nonce_ack", true, synack(0x9999_9999, 0x8888_8888)),
        ("forged SYN-ACK, nonce_ack = server nonce", true, synack(0x2222_2222, 0x8888_8888)),
        ("forged error Version, wrong nonce", true, err(0x9999_9999, HandshakeErrorType::Version)),
        ("forged error Config, wrong nonce", true, err(0x2222_2222, HandshakeErrorType::Config)),
        ("forged error ServerFull, wrong nonce", true, err(0, HandshakeErrorType::ServerFull)),
        ("forged SYN to client", true, syn(uflow::PROTOCOL_VERSION, 0x1111_1111)),
        ("forged ACK to client", true, ack(0x1111_1111)),
        // neighbours of the right nonces and extreme values; degenerate limits in a frame that does not carry the nonce
        ("spoofed ACK, server nonce + 1", false, ack(0x2222_2223)),
        ("spoofed ACK, server nonce - 1", false, ack(0x2222_2221)),
        ("spoofed ACK, nonce 2^32-1", false, ack(0xFFFF_FFFF)),
        ("forged SYN-ACK, client nonce + 1", true, synack(0x1111_1112, 0x8888_8888)),
        ("forged SYN-ACK, nonce_ack 2^32-1", true, synack(0xFFFF_FFFF, 0x8888_8888)),
        ("forged SYN-ACK, wrong nonce_ack, receive rate 0", true, fw(Frame::HandshakeSynAckFrame(HandshakeSynAckFrame { nonce_ack: 0x9999_9999, nonce: 0x8888_8888, max_receive_rate: 0, max_packet_size: 1000, max_receive_alloc: 1_000_000 }))),
        ("forged SYN-ACK, wrong nonce_ack, receive alloc 0", true, fw(Frame::HandshakeSynAckFrame(HandshakeSynAckFrame { nonce_ack: 0x9999_9999, nonce: 0x8888_8888, max_receive_rate: 1_000_000, max_packet_size: 0, max_receive_alloc: 0 }))),
        ("forged error ServerFull, client nonce + 1", true, err(0x1111_1112, HandshakeErrorType::ServerFull)),
        ("forged error Version, nonce 2^32-1", true, err(0xFFFF_FFFF, HandshakeErrorType::Version)),
        // refusals that do carry the client's nonce (a refusal of its first SYN that the network delivers late, after a retransmitted SYN was
        // admitted; or a duplicate): they end a handshake that is still pending, and must not touch a connection that is established
        ("stale error ServerFull, client's nonce", true, err(0x1111_1111, HandshakeErrorType::ServerFull)),
        ("stale error Config, client's nonce", true, err(0x1111_1111, HandshakeErrorType::Config)),
        ("stale error Version, client's nonce", true, err(0x1111_1111, HandshakeErrorType::Version)),
    ]
}

fn forger_scenario(tag: &str, cfg: EwCfg, script: Vec<EwOp>, env: EwEnv, window: usize) -> Scenario {
    let name = format!("{}|{}|{}|{}|w{}", tag, cfg.name(), script_name(&script), env.name(), window);
    let base: Arc<OnceLock<Arc<(Vec<String>, Vec<(Vec<bool>, Vec<bool>, Vec<bool>, (usize, usize))>)>>> = Arc::new(OnceLock::new());
    let _ = &base;
    let run = move |ch: &mut Chooser| -> ExecResult {
        let alpha = forged_alphabet();
        let r = ch.free(window + 1);            // 0 = no forgery (the baseline itself)
        let k = if r > 0 { ch.free(alpha.len()) } else { 0 };
        let mut s2 = script.clone();
        let what = if r > 0 {
            let (n, to_client, bytes) = &alpha[k];
            s2.push(at(r - 1, if *to_client { Act::RawToClient(0, bytes.clone()) } else { Act::Spoof(0, bytes.clone()) }));
            format!("forged frame '{}' injected in round {}", n, r - 1)
        } else { String::new() };
        let mut c0 = Chooser::new(vec![], vec![]);
        let base_tr = run_ew(&cfg, &script, &env, &mut c0);
        // A SYN from the client's address while the server has no entry for that address is simply a
        // new handshake attempt from there (it yields a pending entry, never a Connect), not a forgery
        // against an existing handshake or connection: such injections are not compared.
        if r > 0 && alpha[k].0.starts_with("spoofed SYN,") && (r < 2 || !base_tr.obs[(r - 2).min(base_tr.obs.len() - 1)].s_known[0] || !base_tr.obs[(r - 1).min(base_tr.obs.len() - 1)].s_known[0]) {
            return ExecResult { outcome: 7, ..Default::default() };
        }
        if r > 0 && alpha[k].0.starts_with("stale error") && (r < 2 || !base_tr.obs[(r - 2).min(base_tr.obs.len() - 1)].c_active[0] || !base_tr.obs[(r - 1).min(base_tr.obs.len() - 1)].c_active[0]) {
            return ExecResult { outcome: 8, ..Default::default() };
        }
        let mut c1 = Chooser::new(vec![], vec![]);
        let tr = run_ew(&cfg, &s2, &env, &mut c1);
        if crate::lwprops::verbose() { print_ew(&cfg, &tr); }
        let mut violations = if r > 0 { diff_traces(&base_tr, &tr, &what) } else { Vec::new() };
        violations.extend(oracle_c08(&cfg, &tr));
        violations.extend(oracle_c07(&cfg, &tr, false));
        // replies provoked by the forgery: only the idempotent re-ACK of a SYN-ACK is allowed
        if r > 0 {
            let extra = tr.wire.iter().filter(|d| !d.injected).count() as i64 - base_tr.wire.iter().filter(|d| !d.injected).count() as i64;
            if extra != 0 {
                let kinds: Vec<String> = tr.wire.iter().filter(|d| !d.injected && d.sent_round + 1 >= r.saturating_sub(1) && d.sent_round <= r + 1).map(|d| frame_kind(&d.frame, &d.bytes)).collect();
                let only_reack = extra == 1 && alpha[k].0.starts_with("forged SYN-ACK, nonce_ack = client");
                if !only_reack { violations.push(crate::lw::viol("C07.forged", "C07.forged:reply".into(), format!("{} changed the number of datagrams sent by the endpoints by {} (datagrams around that round: {:?})", what, extra, kinds))); }
            }
        }
        ExecResult { violations, panic: None, outcome: ew_outcome(&tr) ^ (r as u64) << 8 ^ k as u64, states: ew_states(&tr), transitions: tr.obs.len() as u64 * 2, witnesses: ew_witnesses(&tr) << 32,
                     sample: if r == 3 && k < 3 { Some(format!("{} -> no visible effect", what)) } else { None } }
    };
    Scenario { name, d: 0, run: Box::new(run) }
}

// ------------------------------------------------------------------------------------------------
pub fn c17_parts(quick: bool) -> (Vec<EwSpec>, Vec<Scenario>) {
    let mut custom: Vec<Scenario> = Vec::new();
    let mut scs: Vec<EwSpec> = Vec::new();
    // (max_active, max_total); Config::is_valid() also accepts a total limit below the active limit (an application that lowers only max_total_connections)
    let limits: Vec<(usize, usize)> = if quick { vec![(1, 1), (1, 2), (2, 2), (1, 3), (2, 3), (3, 2), (32, 1)] } else { vec![(1, 1), (1, 2), (1, 3), (2, 2), (2, 3), (2, 4), (3, 3), (3, 2), (2, 1), (32, 1), (32, 2)] };
    for (ma, mt) in limits {
        for nc in [2usize, 3, 4] {
            if quick && nc == 4 && !(ma == 1 && mt == 2) { continue; }
            let mut cfg = EwCfg::new(nc + 1); cfg.max_active = ma; cfg.max_total = mt;
            for c in cfg.clients.iter_mut() { c.active_timeout_ms = 3000; } cfg.server.active_timeout_ms = 3000;
            // all interleavings of the handshake datagrams: hold/deliver/drop on SYN, SYN-ACK, ACK, complete enumeration for <= 3 clients
            let mut script: Vec<EwOp> = (0..nc).map(|i| at(i / 2, Act::Connect(i))).collect();
            for i in 0..nc { script.push(after_c(i, 2, Act::CSend(i, 0, SendMode::Reliable, 50))); }
            let mut env = EwEnv::basic(if nc <= 3 { 4 } else { 4 }, 60);
            env.fates = &[DFate::Deliver, DFate::Hold2, DFate::Drop, DFate::Dup, DFate::HoldLong]; env.fate_types = &[0, 1, 2]; env.deltas = &[100]; env.fair_delta = 500; env.long_hold = 6;
            env.fates_free = nc <= 2 || (!quick && nc <= 3);
            let d = if env.fates_free { 0 } else { 3 };
            scs.push(sc("C17.overlap", &cfg, script.clone(), env, d, EO_C17 | EO_C08));
            // connections ending in between (disconnect by client, by server, drop, time-out of a vanished client), then a late-comer must be admitted
            for (ename, endings) in [("client-disconnect", vec![after_c(0, 3, Act::CDisconnectNow(0))]), ("server-disconnect", vec![after_s(0, 3, Act::SDisconnectNow(0))]),
                                     ("drop", vec![after_s(0, 3, Act::SDrop(0)), after_s(0, 4, Act::Forget(0))]), ("vanish", vec![after_c(0, 3, Act::Forget(0))]),
                                     ("crossing-disconnects", vec![after_s(0, 3, Act::SDisconnectNow(0)), after_s(0, 3, Act::CDisconnectNow(0))]), ("crossing-flushing-disconnects", vec![after_s(0, 3, Act::SDisconnect(0)), after_s(0, 4, Act::CDisconnect(0))])] {
                if quick && nc != 2 { continue; }
                let mut s2 = script.clone(); s2.extend(endings);
                // the late-comer arrives after the closed time-out (20 s) and every retry budget has passed: 70 s
                s2.push(at(8 + 140, Act::Connect(nc)));
                for i in 1..nc { s2.push(at(8 + 60, Act::CDisconnectNow(i))); }
                let mut env = EwEnv::basic(5, 8 + 140 + 30);
                env.fates = DF_LOSS; env.fate_types = &[0, 1, 2, 4, 5]; env.deltas = &[100, 2000]; env.fair_delta = 500; env.stop_when_done = false;
                scs.push(sc(&format!("C17.ending.{}", ename), &cfg, s2, env, if quick { 1 } else { 2 }, EO_C17 | EO_READMIT));
            }
        }
    }
    // a connection ends by disconnects that cross (both applications close at the same time, in either mode) while another connection
    // stays established; the freed slot is taken by a newcomer, and the one after that must be refused as long as the limit is reached
    for (cname, calls) in [("now-now", vec![Act::SDisconnectNow(0), Act::CDisconnectNow(0)]), ("now-flush", vec![Act::SDisconnectNow(0), Act::CDisconnect(0)]), ("flush-now", vec![Act::SDisconnect(0), Act::CDisconnectNow(0)]), ("flush-flush", vec![Act::SDisconnect(0), Act::CDisconnect(0)])] {
        for (ma, mt) in [(2usize, 4usize), (2, 8)] {
            let mut cfg = EwCfg::new(5); cfg.max_active = ma; cfg.max_total = mt;
            let mut script = vec![at(0, Act::Connect(0)), at(0, Act::Connect(1)), after_c(1, 2, Act::CSend(1, 0, SendMode::Reliable, 50))];
            for c in calls.iter() { script.push(after_s(0, 3, c.clone())); }
            script.extend([at(14, Act::Connect(2)), at(20, Act::Connect(3)), at(26, Act::Connect(4)), at(60, Act::CDisconnectNow(1)), at(60, Act::CDisconnectNow(2))]);
            let mut env = EwEnv::basic(6, 100);
            env.fates = DF_BASIC; env.fate_types = &[4, 5]; env.deltas = &[100, 2000]; env.fair_delta = 500; env.stop_when_done = false;
            scs.push(sc(&format!("C17.crossing-disconnects-then-newcomers.{}", cname), &cfg, script, env, if quick { 1 } else { 2 }, EO_C17 | EO_C08));
        }
    }
    // the server application stalls (no step() for longer than the active time-out) while an established client keeps sending and a
    // newcomer's request arrives: when it steps again it finds the newcomer's SYN and the established client's datagrams in one batch,
    // in either order; the established connection is alive, so the newcomer does not fit
    for (ma, mt) in [(1usize, 1usize), (1, 2), (2, 2)] {
        for first in [12usize, 10] {
            let mut cfg = EwCfg::new(3); cfg.max_active = ma; cfg.max_total = mt;
            for c in cfg.clients.iter_mut() { c.active_timeout_ms = 3000; } cfg.server.active_timeout_ms = 3000;
            let mut script = vec![at(0, Act::Connect(0))];
            if ma == 2 { script.push(at(0, Act::Connect(2))); for r in (5..70).step_by(4) { script.push(at(r, Act::CSend(2, 1, SendMode::Unreliable, 21))); } }
            for r in (4..70).step_by(4) { script.push(at(r, Act::CSend(0, 0, SendMode::Unreliable, 20))); }
            script.push(at(first, Act::Connect(1)));
            let mut env = EwEnv::basic(6, 90);
            env.dev_start = 7; env.fates = DF_NONE; env.deltas = &[100]; env.fair_delta = 100; env.stop_when_done = false; env.stalls = &[(1, 35), (1, 31), (1, 60)];
            scs.push(sc(&format!("C17.server-stalls-past-the-timeout.newcomer-at-{}", first), &cfg, script, env, 1, EO_C17 | EO_C08));
        }
    }
    // the server disconnects a client, the client acknowledges, and the same address connects again 5 / 15 / 23 s later (the disconnect
    // retry budget of the old connection would have run for 22 s); a newcomer 3.5 s after that must find the slot taken
    for (ma, mt) in [(1usize, 1usize), (1, 2)] {
        for r1 in [10usize, 30, 46] {
            let mut cfg = EwCfg::new(3); cfg.max_active = ma; cfg.max_total = mt;
            // (the first connection has exchanged data before it is closed; the returning client sends data of its own: its frames belong to the new connection)
            let script = vec![at(0, Act::Connect(0)), after_c(0, 1, Act::CSend(0, 0, SendMode::Reliable, 60)), after_s(0, 3, Act::SDisconnectNow(0)), at(r1, Act::Connect(0)), at(r1 + 7, Act::Connect(1)), at(r1 + 10, Act::CSend(0, 0, SendMode::Reliable, 77)), at(r1 + 14, Act::CSend(0, 1, SendMode::Unreliable, 78)), at(r1 + 40, Act::CDisconnectNow(0)), at(r1 + 40 + 50, Act::Connect(2))];
            let mut env = EwEnv::basic(5, r1 + 40 + 50 + 20);
            env.fates = DF_LOSS; env.fate_types = &[0, 1, 2, 4, 5]; env.deltas = &[100, 2000]; env.fair_delta = 500; env.stop_when_done = false;
            scs.push(sc(&format!("C17.same-address-returns-after-server-disconnect.{}", r1), &cfg, script, env, if quick { 1 } else { 2 }, EO_C17 | EO_C08));
        }
    }
    // the peer of an established connection dies without a word and a new client is started on the same address at once: its connection
    // requests arrive every 2 s, more often than the active time-out (3 s) - they are not traffic of the dead connection, which must time
    // out and make room for it
    for (ma, mt) in [(1usize, 1usize), (1, 2)] {
        for back in [2usize, 5] {
            let mut cfg = EwCfg::new(2); cfg.max_active = ma; cfg.max_total = mt;
            for c in cfg.clients.iter_mut() { c.active_timeout_ms = 3000; } cfg.server.active_timeout_ms = 3000;
            let script = vec![at(0, Act::Connect(0)), after_c(0, 1, Act::CSend(0, 0, SendMode::Reliable, 50)), after_c(0, 3, Act::Forget(0)), after_c(0, 3 + back, Act::Connect(0))];
            let mut env = EwEnv::basic(4, 90);
            // (no datagram is lost here: with the first handshake's ACK lost the server is still waiting for it, and its 22 s of patience
            // for that handshake and the new client's 22 s for its own run out together - the new client then gives up, which is no violation)
            env.fates = DF_NONE; env.deltas = &[100, 2000]; env.fair_delta = 500; env.stop_when_done = false;
            scs.push(sc(&format!("C17.ending.peer-restarts-on-the-same-address.{}", back), &cfg, script, env, if quick { 1 } else { 2 }, EO_C17 | EO_READMIT | EO_C08));
        }
    }
    // the application closes or drops a connection that is still in its handshake (Server::client() hands it out): the slot must come back
    for (cname, call) in [("disconnect-now", Act::SDisconnectNow(0)), ("disconnect", Act::SDisconnect(0)), ("drop", Act::SDrop(0))] {
        for vanish in [false, true] {
            let mut cfg = EwCfg::new(2); cfg.max_active = 1; cfg.max_total = 1;
            let mut script = vec![at(0, Act::Connect(0)), at(2, call.clone())];
            // (on a connection that is still pending these calls do nothing; if the client is still there the handshake then completes and the
            // connection is ended by the client later on)
            if vanish { script.push(at(1, Act::Forget(0))); } else { script.push(at(90, Act::CDisconnectNow(0))); }
            script.push(at(8 + 140, Act::Connect(1)));
            let mut env = EwEnv::basic(5, 8 + 140 + 30);
            // the handshake is kept pending by holding or losing its second and third datagram
            env.fates = &[DFate::Deliver, DFate::HoldLong, DFate::Drop]; env.fate_types = &[1, 2]; env.long_hold = 8; env.deltas = &[500]; env.fair_delta = 500; env.stop_when_done = false;
            scs.push(sc(&format!("C17.ending.application-closes-a-pending-handshake.{}{}", cname, if vanish { ".client-gone" } else { "" }), &cfg, script, env, if quick { 1 } else { 2 }, EO_C17 | EO_READMIT | EO_C08));
        }
    }
    // handshakes abandoned half-way (the client vanishes after its SYN) must release their slot when the SYN-ACK retry budget is spent,
    // with handshake error reporting on and off (off is the default configuration)
    for he in [true, false] {
        for (ma, mt) in [(1usize, 1usize), (1, 2), (2, 2)] {
            let mut cfg = EwCfg::new(4); cfg.max_active = ma; cfg.max_total = mt; cfg.handshake_errors = he;
            for c in cfg.clients.iter_mut() { c.active_timeout_ms = 3000; } cfg.server.active_timeout_ms = 3000;
            let mut script = vec![at(0, Act::Connect(0)), at(1, Act::Forget(0)), at(0, Act::Connect(1)), at(2, Act::Forget(1)), at(3, Act::Connect(2)), after_c(2, 2, Act::CSend(2, 0, SendMode::Reliable, 50)), after_c(2, 4, Act::CDisconnectNow(2))];
            script.push(at(8 + 140, Act::Connect(3)));
            let mut env = EwEnv::basic(5, 8 + 140 + 30);
            env.fates = DF_LOSS; env.fate_types = &[0, 1, 2, 4, 5]; env.deltas = &[100, 2000]; env.fair_delta = 500; env.stop_when_done = false;
            scs.push(sc(&format!("C17.ending.abandoned-handshake.he{}", he as u8), &cfg, script, env, if quick { 1 } else { 2 }, EO_C17 | EO_READMIT));
        }
    }
    // a connection the application has asked to close (flushing disconnect) stays established while its outbound data is unacknowledged:
    // the peer has vanished, so it holds its slot until the active time-out; a newcomer in that window must be refused, a later one admitted
    for (ma, mt) in [(1usize, 1usize), (1, 2), (2, 2)] {
        let mut cfg = EwCfg::new(4); cfg.max_active = ma; cfg.max_total = mt;
        for c in cfg.clients.iter_mut() { c.active_timeout_ms = 3000; } cfg.server.active_timeout_ms = 3000;
        let mut script = vec![at(0, Act::Connect(0)), after_s(0, 1, Act::SSend(0, 0, SendMode::Reliable, 5000)), after_s(0, 1, Act::SDisconnect(0)), after_s(0, 1, Act::Forget(0)), after_s(0, 2, Act::Connect(1)), after_s(0, 4, Act::Connect(2))];
        if ma == 2 { script.push(at(0, Act::Connect(3))); }
        script.push(at(8 + 140, Act::Connect(0)));
        let mut env = EwEnv::basic(if quick { 6 } else { 9 }, 8 + 140 + 30);
        env.fates = DF_BASIC; env.fate_types = &[0, 1, 2, 4, 5]; env.deltas = &[100, 2000]; env.fair_delta = 500; env.stop_when_done = false;
        scs.push(sc("C17.flushing-disconnect-holds-slot", &cfg, script, env, if quick { 1 } else { 2 }, EO_C17 | EO_READMIT));
    }
    // a client disconnects and reconnects from the same address while the server's closed entry still lingers (20 s); later, when the
    // old entry's time-out has fired, another client asks for the last free slot
    for (ma, mt) in [(1usize, 1usize), (1, 2), (2, 2)] {
        let mut cfg = EwCfg::new(3); cfg.max_active = ma; cfg.max_total = mt;
        let mut script = vec![at(0, Act::Connect(0)), after_c(0, 2, Act::CDisconnectNow(0)), at(8, Act::Forget(0)), at(9, Act::Connect(0)), at(14, Act::CSend(0, 0, SendMode::Reliable, 40))];
        if ma == 2 { script.push(at(2, Act::Connect(2))); }
        script.push(at(16 + 52, Act::Connect(1)));   // 26 s after the reconnect: the first connection's closed time-out (20 s) has fired
        script.push(at(16 + 60, Act::CSend(0, 0, SendMode::Reliable, 41)));
        let mut env = EwEnv::basic(if quick { 5 } else { 8 }, 16 + 90);
        env.fates = DF_BASIC; env.fate_types = &[0, 1, 2, 4, 5]; env.deltas = &[100, 2000]; env.fair_delta = 500; env.stop_when_done = false;
        scs.push(sc("C17.reconnect-within-linger", &cfg, script.clone(), env.clone(), if quick { 1 } else { 2 }, EO_C17 | EO_C08 | EO_C07));
        // the same with the application calling Server::drop() on the lingering (closed) entry before the reconnect, and on a
        // closing entry (server-side disconnect towards a vanished client)
        let mut s2 = script.clone(); s2.push(at(6, Act::SDrop(0)));
        scs.push(sc("C17.drop-during-linger-then-reconnect", &cfg, s2, env.clone(), if quick { 1 } else { 2 }, EO_C17 | EO_C08));
    }
    (scs, custom)
}

pub fn c17_specs(quick: bool) -> Vec<EwSpec> { c17_parts(quick).0 }

pub fn c17(quick: bool) -> PropRun {
    let (own, custom) = c17_parts(quick);
    let scs = assemble(own, custom, quick, "C17", EO_C17);
    PropRun { level: "model_checking", scenarios: scs, units: vec![], replay_case: None, summary: ew_summary(
        "limit ledger on the server's own event stream and tracked-connection count at every round of every explored execution; all interleavings of the handshake datagrams of 2-3 clients are enumerated completely (free choices), 4 clients deviation-bounded",
        json!({"limits(max_active,max_total)": "(1,1) (1,2) (1,3) (2,2) (2,3) (2,4) (3,3)", "clients": [2, 3, 4], "handshake_fates": "deliver / hold 2 rounds / drop on SYN, SYN-ACK, ACK", "endings": "client disconnect, server disconnect, both at once (crossing), Server::drop, vanished client (time-out), abandoned handshake, flushing disconnect towards a vanished peer"})) }
}

// ------------------------------------------------------------------------------------------------
/// Letters of the attacker alphabet: (name, datagram, number of copies sent in the same round).
pub fn raw_alphabet_rep() -> Vec<(String, Vec<u8>, usize)> {
    let base = raw_alphabet();
    let mut v: Vec<(String, Vec<u8>, usize)> = base.iter().map(|(n, b)| (n.to_string(), b.clone(), 1)).collect();
    for (n, b) in base.iter() {
        if ["valid SYN", "SYN other nonce", "SYN 1471 bytes", "SYN wrong version", "SYN wrong version 10 bytes", "SYN-ACK", "ACK wrong nonce", "error", "disconnect", "disconnect-ack", "data", "sync", "ack"].contains(n) { v.push((format!("{} x200", n), b.clone(), 200)); }
    }
    v
}

pub fn raw_alphabet() -> Vec<(&'static str, Vec<u8>)> {
    let syn = |v: u8, n: u32, mp: u32, ma: u32| fw(Frame::HandshakeSynFrame(HandshakeSynFrame { version: v, nonce: n, max_receive_rate: 1_000_000, max_packet_size: mp, max_receive_alloc: ma }));
    let crc_fix = |mut b: Vec<u8>| -> Vec<u8> { let n = b.len(); let c = uflow::verif::crc_compute(&b[..n - 4]); b[n - 4..].copy_from_slice(&c.to_be_bytes()); b };
    let short_syn = |len: usize| -> Vec<u8> { let full = syn(uflow::PROTOCOL_VERSION, 0x5151, 1000, 1_000_000); let mut b = full[..len - 4].to_vec(); b.extend_from_slice(&[0; 4]); crc_fix(b) };
    vec![
        ("valid SYN", syn(uflow::PROTOCOL_VERSION, 0x5151, 1000, 1_000_000)),
        ("empty datagram", vec![]),
        ("SYN other nonce", syn(uflow::PROTOCOL_VERSION, 0x6262, 1000, 1_000_000)),
        ("SYN 1471 bytes", short_syn(1471)),
        ("SYN 100 bytes", short_syn(100)),
        ("SYN 22 bytes", short_syn(22)),
        ("SYN wrong version", syn(uflow::PROTOCOL_VERSION + 1, 0x5151, 1000, 1_000_000)),
        // two reasons for refusal at once: undersized requests of a foreign version (version byte + nonce only; one limit field; all but the last byte)
        ("SYN wrong version 10 bytes", { let full = syn(uflow::PROTOCOL_VERSION + 1, 0x5151, 1000, 1_000_000); let mut b = full[..6].to_vec(); b.extend_from_slice(&[0; 4]); crc_fix(b) }),
        ("SYN version 0 22 bytes", { let full = syn(0, 0x5151, 1000, 1_000_000); let mut b = full[..18].to_vec(); b.extend_from_slice(&[0; 4]); crc_fix(b) }),
        ("SYN wrong version 1471 bytes", { let full = syn(uflow::PROTOCOL_VERSION + 1, 0x5151, 1000, 1_000_000); let mut b = full[..1467].to_vec(); b.extend_from_slice(&[0; 4]); crc_fix(b) }),
        ("SYN config refused (packet too big)", syn(uflow::PROTOCOL_VERSION, 0x5151, 2_000_000, 2_000_000)),
        ("SYN config refused (alloc too small)", syn(uflow::PROTOCOL_VERSION, 0x5151, 10, 10)),
        ("SYN-ACK", fw(Frame::HandshakeSynAckFrame(HandshakeSynAckFrame { nonce_ack: 1, nonce: 2, max_receive_rate: 3, max_packet_size: 4, max_receive_alloc: 5 }))),
        ("ACK wrong nonce", fw(Frame::HandshakeAckFrame(HandshakeAckFrame { nonce_ack: 0x7777 }))),
        ("error", fw(Frame::HandshakeErrorFrame(HandshakeErrorFrame { nonce_ack: 1, error: HandshakeErrorType::Config }))),
        ("disconnect", fw(Frame::DisconnectFrame(DisconnectFrame {}))),
        ("disconnect-ack", fw(Frame::DisconnectAckFrame(DisconnectAckFrame {}))),
        ("data", fw(Frame::DataFrame(DataFrame { sequence_id: 5, nonce: true, datagrams: vec![Datagram { sequence_id: 5, channel_id: 0, window_parent_lead: 0, channel_parent_lead: 0, fragment_id: 0, fragment_id_last: 0, data: vec![1, 2, 3].into() }] }))),
        // frames whose ids are the nonce of the "valid SYN" letter: nothing that the sender of a SYN knows by itself stands in for the nonce the server issued
        ("data, frame id = SYN nonce", fw(Frame::DataFrame(DataFrame { sequence_id: 0x5151, nonce: false, datagrams: vec![Datagram { sequence_id: 0x5151, channel_id: 0, window_parent_lead: 0, channel_parent_lead: 0, fragment_id: 0, fragment_id_last: 0, data: vec![1, 2, 3].into() }] }))),
        ("data, frame id = SYN nonce, empty", fw(Frame::DataFrame(DataFrame { sequence_id: 0x5151, nonce: true, datagrams: vec![] }))),
        ("ACK with the SYN's own nonce", fw(Frame::HandshakeAckFrame(HandshakeAckFrame { nonce_ack: 0x5151 }))),
        ("sync", fw(Frame::SyncFrame(SyncFrame { next_frame_id: Some(3), next_packet_id: Some(4) }))),
        ("ack", fw(Frame::AckFrame(AckFrame { frame_window_base_id: 1, packet_window_base_id: 2, frame_acks: vec![AckGroup { base_id: 0, bitfield: 1, nonce: false }] }))),
        ("garbage", vec![0xAB; 40]),
    ]
}

pub fn c18(quick: bool) -> PropRun {
    let mut scs = Vec::new();
    // (len, reduced alphabet?) pairs; the reduced alphabet keeps the connection requests and the cheapest stray frames
    let plans: Vec<(usize, bool)> = if quick { vec![(2, false), (3, true)] } else { vec![(3, false), (4, true)] };
    for (len, reduced) in plans.iter().copied() {
        for (full, ma, mt) in [(false, 32usize, 4096usize), (true, 1, 1)] {
            let name = format!("C18.seq|full{}|len{}|reduced{}", full as u8, len, reduced as u8);
            let run = move |ch: &mut Chooser| -> ExecResult {
                let mut alpha = raw_alphabet_rep();
                if reduced { alpha.retain(|a| ["valid SYN", "SYN other nonce", "SYN 1471 bytes", "SYN wrong version", "SYN config refused (packet too big)", "ACK wrong nonce", "garbage", "ACK wrong nonce x200", "valid SYN x200", "disconnect x200"].contains(&a.0.as_str())); }
                let waits: &[usize] = if reduced { &[1, 4, 46] } else { &[1, 4, 42, 46] }; // rounds of 500 ms: 0.5 s, 2 s, 21 s, 23 s
                let mut cfg = EwCfg::new(1); cfg.max_active = ma; cfg.max_total = mt;
                let mut script: Vec<EwOp> = Vec::new();
                if full { script.extend(echo_script(0)); }
                let mut round = 2usize; let mut desc = Vec::new();
                for pos in 0..len {
                    let a = ch.free(alpha.len() + 1);
                    if a == 0 { break; }
                    let who = if pos > 0 { ch.free(2) } else { 0 };
                    for _ in 0..alpha[a - 1].2 { script.push(at(round, Act::Raw(who, alpha[a - 1].1.clone()))); }
                    let w = ch.free(waits.len());
                    desc.push(format!("{}@r{} from raw{} then wait {} rounds", alpha[a - 1].0, round, who, waits[w]));
                    round += waits[w];
                }
                let mut env = EwEnv::basic(0, round + 50);
                env.fates = DF_NONE; env.deltas = &[500]; env.fair_delta = 500; env.stop_when_done = false;
                let mut c0 = Chooser::new(vec![], vec![]);
                let tr = run_ew(&cfg, &script, &env, &mut c0);
                if crate::lwprops::verbose() { print_ew(&cfg, &tr); }
                let violations = oracle_c18(&cfg, &tr, 2);
                let replies = tr.wire.iter().filter(|d| d.src == saddr() && d.dst.port() >= 45000).count() as u64;
                ExecResult { violations, panic: None, outcome: crate::explore::hash_bytes(ew_outcome(&tr) ^ replies << 20, format!("{:?}", desc).as_bytes()), states: ew_states(&tr), transitions: tr.obs.len() as u64, witnesses: (replies > 0) as u64 | ((replies > 3) as u64) << 1,
                             sample: if desc.len() == len && ch.taken.iter().map(|x| *x as usize).sum::<usize>() % 97 == 5 { Some(format!("{:?}", desc)) } else { None } }
            };
            scs.push(Scenario { name, d: 0, run: Box::new(run) });
        }
    }
    scs.push(raw_handshake_scenario("C18", 16_000));
    // every ordered pair of letters arriving in the same round from two different addresses (the server reads them in one step(), one
    // after the other into the same buffer): what the first one was must not rub off on the second
    {
        let name = "C18.same-round-pairs|alphabet x alphabet|two addresses".to_string();
        let run = move |ch: &mut Chooser| -> ExecResult {
            let alpha = raw_alphabet();
            let a = ch.free(alpha.len()); let b = ch.free(alpha.len());
            let cfg = EwCfg::new(1);
            let script = vec![at(2, Act::Raw(0, alpha[a].1.clone())), at(2, Act::Raw(1, alpha[b].1.clone()))];
            let mut env = EwEnv::basic(0, 60);
            env.fates = DF_NONE; env.deltas = &[500]; env.fair_delta = 500; env.stop_when_done = false;
            let mut c0 = Chooser::new(vec![], vec![]);
            let tr = run_ew(&cfg, &script, &env, &mut c0);
            if crate::lwprops::verbose() { print_ew(&cfg, &tr); }
            let violations = oracle_c18(&cfg, &tr, 2);
            let replies = tr.wire.iter().filter(|d| d.src == saddr() && d.dst.port() >= 45000).count() as u64;
            ExecResult { violations, panic: None, outcome: crate::explore::hash_bytes(ew_outcome(&tr) ^ replies << 20, format!("{}/{}", alpha[a].0, alpha[b].0).as_bytes()), states: ew_states(&tr), transitions: tr.obs.len() as u64, witnesses: (replies > 0) as u64 | ((replies > 3) as u64) << 1,
                         sample: if a == 0 && b == 1 { Some(format!("'{}' from raw0 and '{}' from raw1 in the same round: {} datagrams sent back", alpha[a].0, alpha[b].0, replies)) } else { None } }
        };
        scs.push(Scenario { name, d: 0, run: Box::new(run) });
    }
    // one or three valid connection requests from an address that never answers, against servers stepping slowly (the resend timers are
    // then handled late) and servers configured with long active time-outs, watched for seven minutes
    {
        let name = "C18.unanswered-syn|timeouts20s.3min.1h|cadence0.5s.5s.30s|syns1.3|stray-frames.none.data.sync.ack.disconnect.every19s.all-every3s".to_string();
        let run = move |ch: &mut Chooser| -> ExecResult {
            let timeout = [20_000u64, 180_000, 3_600_000][ch.free(3)];
            let cad = [500u64, 5_000, 30_000][ch.free(3)];
            let nsyn = [1usize, 3][ch.free(2)];
            let alpha = raw_alphabet();
            let syn = alpha.iter().find(|a| a.0 == "valid SYN").map(|a| a.1.clone()).unwrap();
            let mut cfg = EwCfg::new(1); cfg.server.active_timeout_ms = timeout;
            let rounds = (420_000 / cad) as usize + 4;
            let mut script: Vec<EwOp> = Vec::new();
            for k in 0..nsyn { script.push(at(1 + k * ((30_000 / cad) as usize).max(1), Act::Raw(0, syn.clone()))); }
            // the address that never answers the SYN-ACK keeps sending cheap stray frames (none; one kind every 19 s; all kinds in turn every 3 s):
            // nothing it sends without the nonce may prolong or restart the server's retransmissions
            let stray = ch.free(6);
            if stray > 0 {
                let kinds = ["data", "sync", "ack", "disconnect", "ACK wrong nonce"];
                let every = if stray == 5 { 3_000u64 } else { 19_000 };
                let mut t = 5_000u64; let mut j = 0usize;
                while t < 400_000 { let name = if stray == 5 { kinds[j % kinds.len()] } else { kinds[stray - 1] }; let b = alpha.iter().find(|a| a.0 == name).map(|a| a.1.clone()).unwrap(); script.push(at(1 + (t / cad) as usize, Act::Raw(0, b))); t += every; j += 1; }
            }
            let mut env = EwEnv::basic(0, rounds);
            env.fates = DF_NONE; env.deltas = leak_deltas(cad, &[]); env.fair_delta = cad; env.stop_when_done = false;
            let mut c0 = Chooser::new(vec![], vec![]);
            let tr = run_ew(&cfg, &script, &env, &mut c0);
            if crate::lwprops::verbose() { print_ew(&cfg, &tr); }
            let violations = oracle_c18(&cfg, &tr, 2);
            let replies = tr.wire.iter().filter(|d| d.src == saddr() && d.dst.port() >= 45000).count() as u64;
            ExecResult { violations, panic: None, outcome: ew_outcome(&tr) ^ replies << 20 ^ timeout ^ cad << 32, states: ew_states(&tr), transitions: tr.obs.len() as u64, witnesses: (replies > 0) as u64 | ((replies > 3) as u64) << 1,
                         sample: if cad == 5000 && nsyn == 1 { Some(format!("server time-out {} ms, steps every {} ms: {} datagrams sent to the silent address in 420 s", timeout, cad, replies)) } else { None } }
        };
        scs.push(Scenario { name, d: 0, run: Box::new(run) });
    }
    PropRun { level: "fault_enumeration", scenarios: scs, units: vec![], replay_case: None, summary: Summary {
        rule: "every sequence of up to `len` raw datagrams from two spoofable addresses with waits of 0.5/2/21/23 s between them is sent to a real Server (once with room, once full and serving an honest client); a byte ledger per address is evaluated over all datagrams of the execution; distinct = distinct (sequence, outcome)".into(),
        bounds: json!({"plans(len,reduced_alphabet)": plans, "alphabet": raw_alphabet_rep().iter().map(|x| x.0.clone()).collect::<Vec<_>>(), "reduced_alphabet": ["valid SYN", "SYN other nonce", "SYN 1471 bytes", "SYN wrong version", "SYN config refused (packet too big)", "ACK wrong nonce", "garbage", "ACK wrong nonce x200", "valid SYN x200", "disconnect x200"], "bursts": "12 letters also as bursts of 200 copies in one round", "waits_rounds_of_500ms": [1, 4, 42, 46], "server": ["default limits", "full (1 connection, taken by an honest client)"], "unanswered_syn": "server active time-out 20 s / 3 min / 1 h x step cadence 0.5 / 5 / 30 s x 1 or 3 requests, 420 s"}),
        assumptions: A_EW.iter().map(|s| s.to_string()).collect(), witness_names: vec!["the server replied to an unverified address", "SYN-ACK retransmissions to an unverified address"], extra: json!({}), exhaustive: true } }
}

// ------------------------------------------------------------------------------------------------
pub fn c10_parts(quick: bool) -> (Vec<EwSpec>, Vec<Scenario>) {
    let mut custom: Vec<Scenario> = Vec::new();
    let mut scs: Vec<EwSpec> = Vec::new();
    let timeouts: &[u64] = if quick { &[1000, 3000, 20_000] } else { &[1000, 3000, 20_000] };
    let keepalives: &[Option<u64>] = &[None, Some(500), Some(2500), Some(5000)];
    let cadences: &[u64] = if quick { &[7, 100, 1000, 12_000] } else { &[1, 7, 100, 1000, 5000, 12_000] };
    for &t in timeouts {
        for &ka in keepalives {
            for &cad in cadences {
                if cad == 1 && t > 3000 { continue; }
                // application loops slower than a second are run against the default time-out only (slower than the time-out itself nothing can be asked)
                if cad > 1000 && t != 20_000 { continue; }
                if quick && cad == 7 && t == 20_000 { continue; }
                let mk = |mut e: EndpointConfig| { e.active_timeout_ms = t; e.keepalive = ka.is_some(); e.keepalive_interval_ms = ka.unwrap_or(5000); e };
                let mut cfg = EwCfg::new(1); cfg.server = mk(cfg.server.clone()); cfg.clients[0] = mk(cfg.clients[0].clone());
                let rounds_for = |ms: u64| (ms / cad) as usize + 5;
                // idle connection, then the client vanishes / the server drops it: time-outs must fire exactly on time
                for (sname, tail) in [("idle-then-drop", vec![after_s(0, rounds_for(t / 2), Act::SDrop(0))]), ("idle-then-vanish", vec![after_c(0, rounds_for(t / 2), Act::Forget(0))]),
                                      ("busy-then-drop", vec![after_c(0, 1, Act::CSend(0, 0, SendMode::Reliable, 3000)), after_s(0, 2, Act::SSend(0, 0, SendMode::Reliable, 3000)), after_s(0, rounds_for(t / 3), Act::SDrop(0))])] {
                    let mut script = vec![at(0, Act::Connect(0))]; script.extend(tail);
                    let total = rounds_for(t / 2) + rounds_for(t) + rounds_for(2500);
                    let mut env = EwEnv::basic(0, total);
                    env.fair_delta = cad; env.fates = DF_NONE; env.stop_when_done = false;
                    // deviations: one step spacing somewhere is different (+-1 ms around the cadence, a long pause)
                    env.dev_start = rounds_for(t / 2).saturating_sub(3); env.dev_rounds = if quick { 6 } else { 12 };
                    env.deltas = if cad > 1 { &[0, 1, 2, 999, 1000, 1001, 3000] } else { &[0, 1, 2, 999] };
                    let env = EwEnv { deltas: leak_deltas(cad, env.deltas), ..env };
                    scs.push(sc(&format!("C10.{}", sname), &cfg, script, env, if quick { 1 } else { 2 }, EO_C10));
                }
                // keep-alive: idle for 10x the timeout on a loss-free network
                if let Some(k) = ka { if k < t {
                    let mut env = EwEnv::basic(0, (10 * t / cad) as usize + 20);
                    env.deltas = leak_deltas(cad, &[]); env.fair_delta = cad; env.fates = DF_NONE; env.stop_when_done = false;
                    if cad >= 7 {
                        scs.push(sc("C10.keepalive-idle", &cfg, vec![at(0, Act::Connect(0))], env.clone(), 0, EO_C10 | EO_KEEPALIVE));
                        // ... while a stranger sends ten unparsable datagrams to the server in every round
                        if cad == 100 { let mut ej = env.clone(); ej.junk_per_round = 10; scs.push(sc("C10.keepalive-idle.junk-from-a-stranger", &cfg, vec![at(0, Act::Connect(0))], ej, 0, EO_C10 | EO_KEEPALIVE)); }
                        // keep-alive enabled on one endpoint only: its frames (and the peer's replies to them) keep both ends alive
                        let mut c1 = cfg.clone(); c1.server.keepalive = false;
                        scs.push(sc("C10.keepalive-idle.client-only", &c1, vec![at(0, Act::Connect(0))], env.clone(), 0, EO_C10 | EO_KEEPALIVE));
                        let mut c2 = cfg.clone(); c2.clients[0].keepalive = false;
                        scs.push(sc("C10.keepalive-idle.server-only", &c2, vec![at(0, Act::Connect(0))], env, 0, EO_C10 | EO_KEEPALIVE));
                    }
                } }
            }
        }
        // handshake: SYN or SYN-ACK lost 0..10 times (and 11 = never answered)
        let mk = |mut e: EndpointConfig| { e.active_timeout_ms = t; e };
        let mut cfg = EwCfg::new(1); cfg.server = mk(cfg.server.clone()); cfg.clients[0] = mk(cfg.clients[0].clone());
        for k in 0..=11usize {
            if quick && ![0, 1, 2, 5, 10, 11].contains(&k) { continue; }
            for which in 0..2 {
                for &cad in &[100u64, 700] {
                    if quick && cad == 700 && k != 1 && k != 11 { continue; }
                    let mut env = EwEnv::basic(0, (26_000 / cad) as usize + (t / cad) as usize + 40);
                    env.fair_delta = cad; env.fates = DF_NONE; env.stop_when_done = false;
                    if which == 0 { env.lose_syn = k; } else { env.lose_synack = k; }
                    env.dev_start = 0; env.dev_rounds = if quick { 4 } else { 8 }; env.deltas = leak_deltas(cad, &[0, 1, 1999, 2000, 2001, 3000, 7000, 25_000]);
                    scs.push(sc("C10.handshake", &cfg, vec![at(0, Act::Connect(0)), after_c(0, 3, Act::SDrop(0))], env, 1, EO_C10));
                }
            }
        }
        // timers of two clients in the server's queue: client 1 connects and disconnects at once (its closed entry lingers 20 s), client 0
        // vanishes and the server disconnects it - ten requests 2 s apart, then Error(Timeout), whatever else is queued
        {
            let mut cfg2 = EwCfg::new(2); cfg2.server = mk(cfg2.server.clone()); for c in cfg2.clients.iter_mut() { *c = mk(c.clone()); }
            for (sname, act) in [("server-disconnect-now", Act::SDisconnectNow(0)), ("server-disconnect", Act::SDisconnect(0))] {
                let script = vec![at(0, Act::Connect(1)), after_c(1, 2, Act::CDisconnectNow(1)), at(0, Act::Connect(0)), after_s(0, 5, Act::Forget(0)), after_s(0, 6, act)];
                let mut env = EwEnv::basic(0, 320);
                env.fair_delta = 100; env.fates = DF_NONE; env.stop_when_done = false; env.deltas = leak_deltas(100, &[0, 1999, 2001]);
                env.dev_start = 8; env.dev_rounds = if quick { 3 } else { 6 };
                scs.push(sc(&format!("C10.two-clients.{}-vanished-peer", sname), &cfg2, script, env, 1, EO_C10 | EO_C09));
            }
        }
        // disconnect retry budget: client disconnects into a blackout
        for (sname, act) in [("disconnect-now-blackout", Act::CDisconnectNow(0)), ("disconnect-blackout", Act::CDisconnect(0))] {
            let mut env = EwEnv::basic(0, 300);
            env.fair_delta = 100; env.fates = DF_NONE; env.stop_when_done = false; env.deltas = leak_deltas(100, &[0, 1999, 2001]);
            env.dev_start = 4; env.dev_rounds = if quick { 3 } else { 6 }; env.blackouts = &[1, 3];
            scs.push(sc(&format!("C10.{}", sname), &cfg, vec![at(0, Act::Connect(0)), after_c(0, 1, Act::CSend(0, 0, SendMode::Reliable, 100)), after_c(0, 4, act)], env, if quick { 1 } else { 2 }, EO_C10));
        }
    }
    // five clients whose timers overlap in the server's queue: one connected and idle (keep-alives), one whose SYN-ACKs are lost twice
    // (handshake resends), one that vanishes (active time-out), one that the server closes after it has gone (ten disconnect retries), one
    // that connects late and leaves at once (closed linger): every timer of every connection must fire at its own time
    for t in [3000u64, 20_000] {
        for order in 0..2usize {
            let mut cfg = EwCfg::new(5);
            for c in cfg.clients.iter_mut() { c.active_timeout_ms = t; } cfg.server.active_timeout_ms = t;
            let o = |i: usize| if order == 0 { i } else { 4 - i };
            let script = vec![at(0, Act::Connect(o(0))), at(3, Act::Connect(o(1))), at(5, Act::Connect(o(2))), at(12, Act::Forget(o(2))), at(7, Act::Connect(o(3))), at(14, Act::Forget(o(3))), at(15, Act::SDisconnectNow(o(3))),
                              at(20, Act::Connect(o(4))), at(26, Act::CDisconnectNow(o(4))), at(40, Act::CSend(o(1), 0, SendMode::Reliable, 100)), at(120, Act::SSend(o(0), 0, SendMode::Reliable, 50))];
            let mut env = EwEnv::basic(if quick { 6 } else { 12 }, 320);
            env.dev_start = 10; env.fair_delta = 100; env.fates = DF_LOSS; env.fate_types = &[0, 1, 2, 4, 5]; env.stop_when_done = false; env.deltas = leak_deltas(100, &[0, 1999, 2001]); env.lose_synack = 2;
            scs.push(sc(&format!("C10.five-clients-overlapping-timers.t{}.order{}", t, order), &cfg, script, env, if quick { 1 } else { 2 }, EO_C10 | EO_C09 | EO_C08));
        }
    }
    (scs, custom)
}

pub fn c10_specs(quick: bool) -> Vec<EwSpec> { c10_parts(quick).0 }

pub fn c10(quick: bool) -> PropRun {
    let (own, mut custom) = c10_parts(quick);
    custom.push(config_extremes_scenario("C10", EO_C10, if quick { 2 } else { 3 }));
    let scs = assemble(own, custom, quick, "C10", EO_C10);
    let timeouts: &[u64] = &[1000, 3000, 20_000]; let cadences: &[u64] = if quick { &[7, 100, 1000] } else { &[1, 7, 100, 1000] };
    PropRun { level: "model_checking", scenarios: scs, units: vec![], replay_case: None, summary: ew_summary(
        "reference timers (active time-out since the last processed data/ack/sync frame or Connect; 10 resends 2 s apart for handshake and disconnect) are stepped alongside every explored execution and compared at every step: no Error(Timeout) before the deadline, Error(Timeout) in the first step at or after it; idle keep-alive connections are run for 10x the time-out",
        json!({"active_timeouts_ms": timeouts, "keepalive_ms": ["off", 500, 2500, 5000], "cadences_ms": cadences, "handshake_losses": "SYN or SYN-ACK lost 0..11 times", "deviations": "one or two step spacings replaced by 0, 1, 2, 999, 1000, 1001, 1999, 2000, 2001, 3000 ms; permanent blackout from any round of the window"})) }
}

fn leak_deltas(cad: u64, extra: &[u64]) -> &'static [u64] {
    // scenario lists are built a few times per process; leaking a handful of tiny slices is harmless
    let mut v = vec![cad]; v.extend_from_slice(extra);
    Box::leak(v.into_boxed_slice())
}

// ------------------------------------------------------------------------------------------------
pub fn c09_parts(quick: bool) -> (Vec<EwSpec>, Vec<Scenario>) {
    let mut custom: Vec<Scenario> = Vec::new();
    let mut scs: Vec<EwSpec> = Vec::new();
    let d = 3;
    use SendMode::*;
    let loads: Vec<(&str, Vec<(u8, SendMode, usize)>)> = vec![
        ("none", vec![]), ("one", vec![(0, Reliable, 100)]), ("empty-marker", vec![(0, Reliable, 0)]), ("data-then-empty-marker", vec![(0, Reliable, 700), (1, Unreliable, 0), (0, Reliable, 0)]), ("three-mixed", vec![(0, Reliable, 3000), (1, Unreliable, 50), (0, Reliable, 20)]),
        ("full-frames-mixed", vec![(0, Reliable, 1448), (1, Unreliable, 1448), (0, Reliable, 1448), (1, Unreliable, 1447)]),
        ("eight", (0..8).map(|i| ((i % 2) as u8, if i % 3 == 2 { Persistent } else { Reliable }, if i == 4 { 5000 } else { 200 + i })).collect()),
    ];
    for (lname, load) in loads {
        for who in 0..2 { // 0 client disconnects, 1 server disconnects
            for now in [false, true] {
                if quick && now && lname == "eight" { continue; }
                let cfg = EwCfg::new(1);
                let mut script = vec![at(0, Act::Connect(0)), after_c(0, 1, Act::CSend(0, 5, Reliable, 10)), after_s(0, 1, Act::SSend(0, 5, Reliable, 11))];
                for (chn, m, s) in load.iter() { script.push(if who == 0 { after_c(0, 4, Act::CSend(0, *chn, *m, *s)) } else { after_s(0, 4, Act::SSend(0, *chn, *m, *s)) }); }
                script.push(match (who, now) { (0, false) => after_c(0, 4, Act::CDisconnect(0)), (0, true) => after_c(0, 4, Act::CDisconnectNow(0)), (_, false) => after_s(0, 4, Act::SDisconnect(0)), (_, true) => after_s(0, 4, Act::SDisconnectNow(0)) });
                let mut env = EwEnv::basic(if quick { 6 } else { 9 }, 120);
                env.dev_start = 4; env.fates = DF_BASIC; env.deltas = &[100, 0, 2000]; env.fair_delta = 500;
                if quick { env.deltas = &[100, 0, 2000]; }
                scs.push(sc(&format!("C09.{}.{}{}", lname, if who == 0 { "client" } else { "server" }, if now { "-now" } else { "" }), &cfg, script.clone(), env, d, EO_C09 | EO_C08));
                // blackout from any round after the call (one or both directions, permanent)
                let mut envb = EwEnv::basic(if quick { 6 } else { 10 }, 140);
                envb.dev_start = 4; envb.fates = DF_NONE; envb.deltas = &[100]; envb.fair_delta = 500; envb.blackouts = &[1, 2, 3];
                scs.push(sc(&format!("C09.blackout.{}.{}{}", lname, if who == 0 { "client" } else { "server" }, if now { "-now" } else { "" }), &cfg, script.clone(), envb.clone(), 1, EO_C09 | EO_C08));
                // the same blackouts ending again: after 2 s, 10 s, and at every half second around the end of the 22 s retry budget (a reply that
                // gets through between the last retransmission and the moment of giving up)
                if lname == "none" || lname == "one" {
                    let mut envt = envb; envt.blackout_lens = &[4, 20, 38, 39, 40, 41, 42, 43, 44, 45, 46]; envt.max_rounds = 170;
                    scs.push(sc(&format!("C09.blackout-ends.{}.{}{}", lname, if who == 0 { "client" } else { "server" }, if now { "-now" } else { "" }), &cfg, script.clone(), envt.clone(), 1, EO_C09 | EO_C08 | EO_C10));
                    // the peer of the endpoint that closes has a long active time-out: it still knows the connection when the last retransmission arrives
                    let mut cfgl = cfg.clone(); cfgl.server.active_timeout_ms = 60_000; cfgl.clients[0].active_timeout_ms = 60_000;
                    scs.push(sc(&format!("C09.blackout-ends.long-timeouts.{}.{}{}", lname, if who == 0 { "client" } else { "server" }, if now { "-now" } else { "" }), &cfgl, script, envt, 1, EO_C09 | EO_C08 | EO_C10));
                }
            }
        }
    }
    // data submitted over several steps before disconnect(): each packet travels in its own frame, so an early frame can be lost while a
    // later one and its acknowledgement get through before the first resend
    for who in 0..2 {
        let cfg = EwCfg::new(1);
        let mut script = vec![at(0, Act::Connect(0)), after_c(0, 1, Act::CSend(0, 5, Reliable, 10)), after_s(0, 1, Act::SSend(0, 5, Reliable, 11))];
        let items: [(usize, u8, SendMode, usize); 5] = [(4, 0, Reliable, 100), (5, 1, Reliable, 120), (5, 2, Unreliable, 30), (6, 3, Reliable, 140), (6, 0, Persistent, 60)];
        for (off, chn, m, sz) in items.iter() { script.push(if who == 0 { after_c(0, *off, Act::CSend(0, *chn, *m, *sz)) } else { after_s(0, *off, Act::SSend(0, *chn, *m, *sz)) }); }
        script.push(if who == 0 { after_c(0, 6, Act::CDisconnect(0)) } else { after_s(0, 6, Act::SDisconnect(0)) });
        let mut env = EwEnv::basic(if quick { 7 } else { 10 }, 120);
        env.dev_start = 4; env.fates = DF_BASIC; env.deltas = &[100, 0, 2000]; env.fair_delta = 500;
        scs.push(sc(&format!("C09.staggered.{}", if who == 0 { "client" } else { "server" }), &cfg, script, env, d, EO_C09 | EO_C08));
    }
    // disconnect right after Connect: the handshake's own datagrams (the client's ACK above all) are among those that can be lost
    for (sname, act) in [("client-now", Act::CDisconnectNow(0)), ("client", Act::CDisconnect(0))] {
        let cfg = EwCfg::new(1);
        let script = vec![at(0, Act::Connect(0)), after_c(0, 1, Act::CSend(0, 0, Reliable, 100)), after_c(0, 1, act)];
        let mut env = EwEnv::basic(if quick { 6 } else { 9 }, 140);
        env.dev_start = 0; env.fates = DF_BASIC; env.deltas = &[100, 2000]; env.fair_delta = 500;
        scs.push(sc(&format!("C09.right-after-connect.{}", sname), &cfg, script, env, d, EO_C09 | EO_C08));
    }
    // the same with the network going dark (one or both directions, for good) at any round from the very first datagram on: a single
    // deviation then loses the handshake ACK and everything after it while the server's SYN-ACK repeats still arrive
    for (sname, act) in [("client-now", Act::CDisconnectNow(0)), ("client", Act::CDisconnect(0)), ("client-empty", Act::CDisconnect(0))] {
        let cfg = EwCfg::new(1);
        let mut script = vec![at(0, Act::Connect(0))];
        if sname != "client-empty" { script.push(after_c(0, 1, Act::CSend(0, 0, Reliable, 100))); }
        script.push(after_c(0, 1, act));
        let mut env = EwEnv::basic(8, 140);
        env.dev_start = 0; env.fates = DF_NONE; env.deltas = &[100]; env.fair_delta = 500; env.blackouts = &[1, 2, 3];
        scs.push(sc(&format!("C09.right-after-connect.blackout.{}", sname), &cfg, script.clone(), env.clone(), 1, EO_C09 | EO_C08));
        // ... and ending again around the end of the retry budgets (a last SYN-ACK repeat or disconnect request that gets through)
        let mut envt = env; envt.blackout_lens = &[4, 20, 36, 37, 38, 39, 40, 41, 42, 43, 44, 45, 46]; envt.max_rounds = 200;
        scs.push(sc(&format!("C09.right-after-connect.blackout-ends.{}", sname), &cfg, script, envt, 1, EO_C09 | EO_C08));
    }
    // disconnect() with Reliable data queued, the path towards the peer goes dark (the other direction stays up, so keep-alives hold off
    // the active time-out), and 3 s later the application gives up waiting and calls disconnect_now()
    for who in 0..2 {
        for wait in [5usize, 30] {
            let cfg = EwCfg::new(1);
            let mut script = vec![at(0, Act::Connect(0)), after_c(0, 1, Act::CSend(0, 5, Reliable, 10)), after_s(0, 1, Act::SSend(0, 5, Reliable, 11))];
            script.push(if who == 0 { after_c(0, 6, Act::CSend(0, 0, Reliable, 3000)) } else { after_s(0, 6, Act::SSend(0, 0, Reliable, 3000)) });
            script.push(if who == 0 { after_c(0, 6, Act::CDisconnect(0)) } else { after_s(0, 6, Act::SDisconnect(0)) });
            script.push(if who == 0 { after_c(0, 6 + wait, Act::CDisconnectNow(0)) } else { after_s(0, 6 + wait, Act::SDisconnectNow(0)) });
            let mut env = EwEnv::basic(6, 160);
            env.dev_start = 4; env.fates = DF_NONE; env.deltas = &[100]; env.fair_delta = 100; env.blackouts = &[1, 2, 3];
            scs.push(sc(&format!("C09.flushing-then-now.{}.{}", if who == 0 { "client" } else { "server" }, wait), &cfg, script, env, 1, EO_C09 | EO_C08));
        }
    }
    // a warm connection (20 kB transferred, constant 100 ms cadence): the last packet's three frames leave in one flush
    for who in 0..2 {
        let cfg = EwCfg::new(1);
        let mut script = vec![at(0, Act::Connect(0))];
        script.push(if who == 0 { after_c(0, 1, Act::CSend(0, 0, Reliable, 20_000)) } else { after_s(0, 1, Act::SSend(0, 0, Reliable, 20_000)) });
        script.push(if who == 0 { after_c(0, 16, Act::CSend(0, 1, Reliable, 4000)) } else { after_s(0, 16, Act::SSend(0, 1, Reliable, 4000)) });
        script.push(if who == 0 { after_c(0, 16, Act::CDisconnect(0)) } else { after_s(0, 16, Act::SDisconnect(0)) });
        let mut env = EwEnv::basic(if quick { 6 } else { 9 }, 140);
        env.dev_start = 16; env.fates = DF_BASIC; env.deltas = &[100, 0, 2000]; env.fair_delta = 100;
        scs.push(sc(&format!("C09.warm.{}", if who == 0 { "client" } else { "server" }), &cfg, script.clone(), env.clone(), d, EO_C09 | EO_C08));
        // the same with four packets that each fill a frame, Reliable and Unreliable alternating: frames of both kinds leave in one flush
        let mut s2: Vec<EwOp> = script[..2].to_vec();
        for (chn, m, sz) in [(1u8, Reliable, 1448usize), (2, Unreliable, 1448), (1, Reliable, 1447), (2, Unreliable, 1446)] { s2.push(if who == 0 { after_c(0, 16, Act::CSend(0, chn, m, sz)) } else { after_s(0, 16, Act::SSend(0, chn, m, sz)) }); }
        s2.push(if who == 0 { after_c(0, 16, Act::CDisconnect(0)) } else { after_s(0, 16, Act::SDisconnect(0)) });
        scs.push(sc(&format!("C09.warm-mixed-full-frames.{}", if who == 0 { "client" } else { "server" }), &cfg, s2, env, d, EO_C09 | EO_C08));
    }
    // both applications close at (nearly) the same time: the two disconnect requests cross, in every combination of flushing / immediate
    for (sname, c_at, s_at) in [("same-round", 4usize, 4usize), ("server-first", 5, 4), ("client-first", 4, 5), ("server-two-ahead", 6, 4)] {
        for (cnow, snow) in [(false, false), (true, true), (false, true), (true, false)] {
            if quick && cnow != snow && sname != "same-round" { continue; }
            let cfg = EwCfg::new(1);
            let mut script = vec![at(0, Act::Connect(0)), after_c(0, 1, Act::CSend(0, 5, Reliable, 10)), after_s(0, 1, Act::SSend(0, 5, Reliable, 11)), after_c(0, c_at, Act::CSend(0, 0, Reliable, 300)), after_s(0, s_at, Act::SSend(0, 0, Reliable, 2000))];
            script.push(after_c(0, c_at, if cnow { Act::CDisconnectNow(0) } else { Act::CDisconnect(0) }));
            script.push(after_s(0, s_at, if snow { Act::SDisconnectNow(0) } else { Act::SDisconnect(0) }));
            let mut env = EwEnv::basic(if quick { 6 } else { 9 }, 140);
            env.dev_start = 4; env.fates = DF_BASIC; env.deltas = &[100, 2000]; env.fair_delta = 500;
            scs.push(sc(&format!("C09.crossing.{}.c{}s{}", sname, if cnow { "-now" } else { "" }, if snow { "-now" } else { "" }), &cfg, script, env, d, EO_C09 | EO_C08));
        }
    }
    // two clients: one closes and is gone at once (its request may be lost: the server side of it then ends by the active time-out), the
    // other closes 2 / 8 / 12 s later or is closed by the server - the timers of one connection must not hold up the other's
    for (oname, other) in [("client-closes", Act::CDisconnectNow(0)), ("client-closes-flushing", Act::CDisconnect(0)), ("server-closes", Act::SDisconnectNow(0)), ("stays", Act::CFlush(0))] {
        for later in [4usize, 16, 24] {
            if quick && later == 16 { continue; }
            let cfg = EwCfg::new(2);
            let script = vec![at(0, Act::Connect(0)), at(0, Act::Connect(1)), after_c(0, 1, Act::CSend(0, 0, Reliable, 100)), after_c(1, 1, Act::CSend(1, 0, Reliable, 100)),
                              at(8, Act::CDisconnectNow(1)), at(9, Act::Forget(1)), at(8 + later, other.clone())];
            let mut env = EwEnv::basic(3, 120);
            env.dev_start = 8; env.fates = DF_LOSS; env.fate_types = &[4, 5]; env.deltas = &[500]; env.fair_delta = 500; env.stop_when_done = false;
            scs.push(sc(&format!("C09.two-clients.one-gone-after-closing.other-{}.{}", oname, later), &cfg, script, env, 1, EO_C09 | EO_C08 | EO_C10));
        }
    }
    (scs, custom)
}

pub fn c09_specs(quick: bool) -> Vec<EwSpec> { c09_parts(quick).0 }

pub fn c09(quick: bool) -> PropRun {
    let (own, custom) = c09_parts(quick);
    let scs = assemble(own, custom, quick, "C09", EO_C09 | EO_C08);
    let d = 3;
    PropRun { level: "model_checking", scenarios: scs, units: vec![], replay_case: None, summary: ew_summary(
        "every explored execution: Reliable packets submitted before disconnect() are delivered to the peer before its Disconnect event (unless the peer disconnects itself); once a disconnect request is on the wire both ends report a terminal event within 22 s + one step per retry; nothing after it (C08 automaton)",
        json!({"d": d, "queued_data": "0, 1, 3, 8 packets of mixed modes incl. multi-fragment", "who": "client or server, disconnect() or disconnect_now()", "blackouts": "to server / to client / both, permanent, from every round of the window"})) }
}

// ------------------------------------------------------------------------------------------------
/// Endpoint-world scenarios for C02 / C11: the user-visible form of "no stall". Default time-outs and
/// windows; faults are single frames lost / duplicated / held and pauses of up to 2 s (C02), or a
/// blackout shorter than the active time-out (C11); afterwards the network is fair.
pub fn survive_scenarios(quick: bool, c11: bool) -> Vec<Scenario> {
    let mut scs = Vec::new();
    use SendMode::*;
    let scripts: Vec<(&str, Vec<EwOp>)> = vec![
        ("bulk-up", vec![at(0, Act::Connect(0)), after_c(0, 1, Act::CSend(0, 0, Reliable, 6000)), after_c(0, 1, Act::CSend(0, 1, Unreliable, 100)), after_c(0, 4, Act::CSend(0, 0, Reliable, 50))]),
        ("both-ways", vec![at(0, Act::Connect(0)), after_c(0, 1, Act::CSend(0, 0, Reliable, 3000)), after_s(0, 1, Act::SSend(0, 0, Reliable, 3000)), after_c(0, 5, Act::CSend(0, 1, Reliable, 10)), after_s(0, 6, Act::SSend(0, 1, Persistent, 1500))]),
        ("small-then-idle-then-more", vec![at(0, Act::Connect(0)), after_c(0, 1, Act::CSend(0, 0, Reliable, 20)), after_c(0, 80, Act::CSend(0, 0, Reliable, 4000)), after_s(0, 90, Act::SSend(0, 0, Reliable, 100))]),
    ];
    for (name, script) in scripts {
        let cfg = EwCfg::new(1);
        let mut env = EwEnv::basic(if quick { 6 } else { 9 }, 450);
        env.dev_start = 1; env.fate_types = &[10, 11, 12]; env.fates = DF_BASIC; env.deltas = &[100, 0, 2000]; env.fair_delta = 100; env.stop_when_done = false;
        if c11 {
            // application pauses well below the active time-out: up to two (three) pauses of 5 s, or one pause of 15 s, plus single losses
            env.fates = DF_LOSS; env.deltas = &[100, 5000]; env.dev_rounds = if quick { 8 } else { 12 };
            let mut env15 = env.clone(); env15.deltas = &[100, 15_000]; env15.fates = DF_NONE;
            scs.push(sc(&format!("C11.survive-one-15s-pause.{}", name), &cfg, script.clone(), env15, 1, EO_SURVIVE_C11));
            // single frame faults and short pauses, then a long idle period
            let mut envf = env.clone(); envf.fates = DF_BASIC; envf.deltas = &[100, 0, 2000]; envf.dev_rounds = if quick { 6 } else { 9 }; envf.max_rounds = 700;
            scs.push(sc(&format!("C11.survive-then-idle.{}", name), &cfg, script.clone(), envf, 3, EO_SURVIVE_C11));
        }
        scs.push(sc(&format!("{}.survive.{}", if c11 { "C11" } else { "C02" }, name), &cfg, script, env, 3, if c11 { EO_SURVIVE_C11 } else { EO_SURVIVE_C02 }));
    }
    scs.into_iter().map(ew_scenario).collect()
}
