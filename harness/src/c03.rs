//! C03: no network input can crash or hang an endpoint. Every execution runs under catch_unwind
//! with a work budget per API call (fuel) and a wall-clock watchdog; a panic, an exhausted budget or
//! a hang is the violation. Inputs: (a) hostile frames relative to the receiver's current state
//! injected at every round of a link-world session, (b) hostile datagrams (all short byte strings
//! per type byte, every frame type with extreme fields) against real endpoints in every connection
//! state while an honest client must still be served, (c) the TFRC event sequences of C14,
//! (d) the fault explorations of the other properties.

use crate::eprops::*;
use crate::ew::*;
use crate::explore::*;
use crate::lw::*;
use crate::lwprops::*;
use crate::props_ew::fw;
use crate::report::Summary;
use crate::PropRun;
use serde_json::json;
use std::sync::Arc;
use uflow::verif::frame::*;
use uflow::verif::*;
use uflow::SendMode;

pub fn panic_violation(p: &str, ctx: &str) -> Violation {
    let fuel = p.contains(FUEL_PANIC);
    let loc = p.rsplit(" @ ").next().unwrap_or("").to_string();
    let loc = loc.rsplit("/src/").next().unwrap_or(&loc).to_string();
    if fuel { viol("C03.unbounded-work", format!("C03.unbounded-work:{}", loc), format!("{}: an API call exceeded its work budget (loop at {})", ctx, loc)) }
    else { viol("C03.panic", format!("C03.panic:{}", loc), format!("{}: panic inside uflow: {}", ctx, p)) }
}

// ---------------------------------------------------------------------------------------------
// (a) state-relative hostile frames on the link world
// ---------------------------------------------------------------------------------------------

fn hostile_frame(ch: &mut Chooser, reduced: bool) -> Box<dyn Fn(&Probe, &LwCfg, &Trace, usize) -> Vec<u8> + Send> {
    let kind = ch.free(3);
    match kind {
        0 => {
            let fid = ch.free(6); let sid = ch.free(6); let chn = ch.free(2);
            let leads = if reduced { ch.free(3) } else { ch.free(5) }; let frag = if reduced { ch.free(4) } else { ch.free(6) }; let len = if reduced { ch.free(2) } else { ch.free(4) };
            Box::new(move |p: &Probe, cfg: &LwCfg, _tr: &Trace, _side: usize| {
                let fw_ = cfg.fwin; let pw = cfg.pwin;
                let frame_id = [p.rx_frame_base.wrapping_sub(1), p.rx_frame_base, p.rx_frame_base.wrapping_add(fw_ - 1), p.rx_frame_base.wrapping_add(fw_), p.rx_frame_base.wrapping_add(31), p.rx_frame_base.wrapping_add(32)][fid];
                let b = p.rx_packet_base;
                let seq = [b.wrapping_sub(1), b, b.wrapping_add(1), b.wrapping_add(pw - 1), b.wrapping_add(pw), b.wrapping_add(1 << 19)][sid] & 0xFFFFF;
                let (w, h) = [(0u16, 0u16), (1, 1), (65535, 65535), (1, 0), (5, 3)][leads];
                let (f, l) = [(0u16, 0u16), (0, 1), (0, 65535), (5, 3), (1, 1), (65535, 65535)][frag];
                let n = [0usize, 1448, 1, 1447][len];
                Frame::DataFrame(DataFrame { sequence_id: frame_id, nonce: true, datagrams: vec![Datagram { sequence_id: seq, channel_id: [0u8, 63][chn], window_parent_lead: w, channel_parent_lead: h, fragment_id: f, fragment_id_last: l, data: vec![0x5A; n].into() }] }).write().to_vec()
            })
        }
        1 => {
            let fwb = ch.free(4); let pwb = ch.free(8); let groups = ch.free(3); let gb = ch.free(5); let bf = ch.free(8); let nonce = ch.free(2);
            Box::new(move |p: &Probe, _cfg: &LwCfg, _tr: &Trace, _side: usize| {
                let fbase = [p.tx_frame_log_base.wrapping_sub(1), p.tx_frame_base, p.tx_frame_next, p.tx_frame_next.wrapping_add(1)][fwb];
                // the field is 32 bits wide on the wire although packet ids have 20: the last three letters set higher bits
                let pbase = [p.tx_packet_base, p.tx_packet_next.wrapping_sub(1) & 0xFFFFF, p.tx_packet_next, p.tx_packet_next.wrapping_add(1) & 0xFFFFF, p.tx_packet_base.wrapping_add(1) & 0xFFFFF,
                             p.tx_packet_base | 0x10_0000, p.tx_packet_next | 0x8000_0000, 0xFFFF_FFFF][pwb];
                let g = AckGroup { base_id: [p.tx_frame_log_base.wrapping_sub(1), p.tx_frame_log_base, p.tx_frame_next.wrapping_sub(1), p.tx_frame_next, p.tx_frame_log_base.wrapping_sub(31)][gb], bitfield: [0u32, 1, 0x8000_0001, 0xFFFF_FFFF, 0b10, 0b100, 0x8000_0000, 0xFFFF_FFFE][bf], nonce: nonce == 1 };
                let n = [0usize, 1, 161][groups];
                Frame::AckFrame(AckFrame { frame_window_base_id: fbase, packet_window_base_id: pbase, frame_acks: (0..n).map(|i| AckGroup { base_id: g.base_id.wrapping_add(i as u32 * 3), ..g.clone() }).collect() }).write().to_vec()
            })
        }
        _ => {
            let a = ch.free(6); let b = ch.free(6);
            Box::new(move |p: &Probe, cfg: &LwCfg, _tr: &Trace, _side: usize| {
                let f = [None, Some(p.rx_frame_base.wrapping_sub(1)), Some(p.rx_frame_base), Some(p.rx_frame_base.wrapping_add(cfg.fwin)), Some(p.rx_frame_base.wrapping_add(cfg.fwin + 1)), Some(p.rx_frame_base.wrapping_add(1 << 31))][a];
                let q = [None, Some(p.rx_packet_base.wrapping_sub(1) & 0xFFFFF), Some(p.rx_packet_base), Some(p.rx_packet_base.wrapping_add(cfg.pwin) & 0xFFFFF), Some(p.rx_packet_base.wrapping_add(cfg.pwin + 1) & 0xFFFFF), Some(0xFFFF_FFFF)][b];
                Frame::SyncFrame(SyncFrame { next_frame_id: f, next_packet_id: q }).write().to_vec()
            })
        }
    }
}

pub fn lw_hostile(tag: &str, cfg: LwCfg, script: Vec<Op>, rounds: usize, pairs: bool) -> Scenario {
    let si = Arc::new(ScriptInfo::new(script));
    let name = format!("{}|{}|{}|r{}|pairs{}", tag, cfg.name(), si.name, rounds, pairs as u8);
    let run = move |ch: &mut Chooser| -> ExecResult {
        let r1 = ch.free(rounds); let side1 = ch.free(2);
        let f1 = hostile_frame(ch, pairs);
        let second = if pairs { let r2 = r1 + ch.free(3); let side2 = ch.free(2); Some((r2, side2, hostile_frame(ch, true))) } else { None };
        let spacing = [20u64, 0, 1, 2000][ch.free(4)];
        let env = LwEnv { fates: FATES_NONE, deltas: &[20], dev_rounds: 0, dev_start: 0, max_rounds: rounds + 40, skip_choice: false, flush_choice: false, blackouts: &[], stop_when_idle: false,
                          fair_delta: 20, slow_after: r1 + 1, slow_delta: spacing.max(0), fuel: 2_000_000, shifts: &[] };
        let env = LwEnv { slow_after: r1 + 1, slow_delta: spacing, ..env };
        let mut inj = |round: usize, side: usize, tr: &Trace, hc: &mut HalfConnection| -> Vec<Vec<u8>> {
            let mut out = Vec::new();
            let p = hc.verif_probe();
            if round == r1 && side == side1 { out.push(f1(&p, &cfg, tr, side)); }
            if let Some((r2, s2, f2)) = &second { if round == *r2 && side == *s2 { out.push(f2(&p, &cfg, tr, side)); } }
            out
        };
        let tr = run_lw(&cfg, &si, &env, ch, Some(&mut inj));
        if verbose() { print_trace(&cfg, &si, &tr); }
        ExecResult { violations: vec![], panic: None, outcome: outcome_hash(&tr), states: state_hashes(&tr), transitions: tr.obs.len() as u64, witnesses: witnesses(&cfg, &si, &tr) | 1 << 20,
                     sample: if r1 == 2 && ch.taken.iter().map(|x| *x as usize).sum::<usize>() % 41 == 7 { Some(format!("hostile frame choices {:?} in session {}", ch.taken, si.name)) } else { None } }
    };
    Scenario { name, d: 0, run: Box::new(run) }
}

// ---------------------------------------------------------------------------------------------
// (b) hostile datagrams against real endpoints
// ---------------------------------------------------------------------------------------------

fn honest_echo_ok(tr: &EwTrace, honest: usize) -> Vec<Violation> {
    let got_s = tr.sev[honest].iter().any(|e| matches!(&e.ev, Ev::Receive(d) if d.len() == 333));
    let got_c = tr.cev[honest].iter().any(|e| matches!(&e.ev, Ev::Receive(d) if d.len() == 222));
    if got_s && got_c { vec![] } else { vec![viol("C03.service", "C03.service".into(), format!("after the hostile input the server no longer serves its other connection: honest client {} echo: request received by server {}, reply received by client {}", honest, got_s, got_c))] }
}

fn ew_flood(tb: u8, maxlen: usize) -> Scenario {
    let name = format!("C03.flood|type{}|len{}", tb, maxlen);
    let run = move |ch: &mut Chooser| -> ExecResult {
        let _ = ch;
        let cfg = EwCfg::new(2);
        let mut script = vec![at(0, Act::Connect(0)), at(0, Act::Connect(1)), after_c(0, 1, Act::CSend(0, 0, SendMode::Reliable, 50))];
        let mut round = 6; let mut count = 0;
        let mut batch = 0;
        for len in 0..=maxlen {
            for v in 0..256u32.pow(len as u32) {
                let mut b = vec![tb]; for k in 0..len { b.push((v >> (8 * k)) as u8); }
                let c = crc_compute(&b); b.extend_from_slice(&c.to_be_bytes());
                script.push(at(round, Act::Spoof(0, b.clone()))); script.push(at(round, Act::Raw(0, b.clone()))); script.push(at(round, Act::RawToClient(0, b)));
                count += 3; batch += 1;
                if batch >= 2048 { batch = 0; round += 1; }
            }
        }
        let end = round + 2;
        script.push(at(end, Act::CSend(1, 0, SendMode::Reliable, 333))); script.push(at(end + 3, Act::SSend(1, 0, SendMode::Reliable, 222)));
        let mut env = EwEnv::basic(0, end + 40);
        env.fates = DF_NONE; env.deltas = &[100]; env.fair_delta = 100; env.stop_when_done = false; env.fuel = 50_000_000;
        let mut c0 = Chooser::new(vec![], vec![]);
        let tr = run_ew(&cfg, &script, &env, &mut c0);
        let violations = honest_echo_ok(&tr, 1);
        ExecResult { violations, panic: None, outcome: ew_outcome(&tr) ^ (tb as u64) << 24, states: vec![], transitions: count as u64, witnesses: ew_witnesses(&tr) << 32, sample: if tb == 10 { Some(format!("type byte {}: {} datagrams (every payload of <= {} bytes, valid CRC) from the connected address, a stranger, and towards the client", tb, count, maxlen)) } else { None } }
    };
    Scenario { name, d: 0, run: Box::new(run) }
}

pub fn extreme_frames() -> Vec<(String, Vec<u8>)> {
    let mut v: Vec<(String, Vec<u8>)> = Vec::new();
    let lims = [0u32, 1, 1472, 0xFFFF_FFFF];
    for &r in &lims { for &p in &lims { for &a in &lims {
        v.push((format!("SYN rate{} packet{} alloc{}", r, p, a), fw(Frame::HandshakeSynFrame(HandshakeSynFrame { version: uflow::PROTOCOL_VERSION, nonce: 0x77, max_receive_rate: r, max_packet_size: p, max_receive_alloc: a }))));
        v.push((format!("SYN-ACK(ack=client nonce) rate{} packet{} alloc{}", r, p, a), fw(Frame::HandshakeSynAckFrame(HandshakeSynAckFrame { nonce_ack: 0x1111_1111, nonce: 0xFFFF_FFFF, max_receive_rate: r, max_packet_size: p, max_receive_alloc: a }))));
    } } }
    v.push(("ACK(server nonce)".into(), fw(Frame::HandshakeAckFrame(HandshakeAckFrame { nonce_ack: 0x2222_2222 }))));
    v.push(("error".into(), fw(Frame::HandshakeErrorFrame(HandshakeErrorFrame { nonce_ack: 0x1111_1111, error: HandshakeErrorType::ServerFull }))));
    v.push(("disconnect".into(), fw(Frame::DisconnectFrame(DisconnectFrame {})))); v.push(("disconnect-ack".into(), fw(Frame::DisconnectAckFrame(DisconnectAckFrame {}))));
    for (i, f) in crate::c16::sample_frames().into_iter().enumerate() { v.push((format!("sample frame {}", i), fw(f))); }
    let dg = |seq: u32, f: u16, l: u16, n: usize| Datagram { sequence_id: seq, channel_id: 63, window_parent_lead: 65535, channel_parent_lead: 65535, fragment_id: f, fragment_id_last: l, data: vec![1; n].into() };
    for (seq, f, l, n) in [(0x11111u32, 0u16, 65535u16, 1448usize), (0x11111, 65535, 65535, 0), (0x22222, 0, 0, 1448), (0x22222 + 4095, 0, 1, 1448), (0x22222 + 4096, 0, 0, 0)] {
        for fid in [0x1111_1111u32, 0x1111_1111 + 4095, 0x2222_2222, 0x2222_2222 + 4095, 0] { v.push((format!("data frame {:x} packet {:x} fragment {}/{} {} B", fid, seq, f, l, n), fw(Frame::DataFrame(DataFrame { sequence_id: fid, nonce: false, datagrams: vec![dg(seq, f, l, n)] })))); }
    }
    v.push(("data frame with 127 empty datagrams".into(), fw(Frame::DataFrame(DataFrame { sequence_id: 0x1111_1111, nonce: true, datagrams: (0..127).map(|k| Datagram { sequence_id: 0x11111 + k, channel_id: (k % 64) as u8, window_parent_lead: 0, channel_parent_lead: 0, fragment_id: 0, fragment_id_last: 0, data: vec![].into() }).collect() }))));
    for (fb, pb) in [(0u32, 0u32), (0x1111_1112, 0x11112), (0x2222_2223, 0x22223), (0xFFFF_FFFF, 0xFFFFF), (0x1111_1112, 0x11_1112), (0x2222_2223, 0x8002_2223), (0, 0xFFFF_FFFF)] { for bf in [1u32, 0xFFFF_FFFF] {
        v.push((format!("ack fb{:x} pb{:x} bf{:x} x161", fb, pb, bf), fw(Frame::AckFrame(AckFrame { frame_window_base_id: fb, packet_window_base_id: pb, frame_acks: (0..161).map(|k| AckGroup { base_id: fb.wrapping_sub(80).wrapping_add(k), bitfield: bf, nonce: k % 2 == 0 }).collect() }))));
    } }
    for a in [None, Some(0u32), Some(0x1111_1111 + 5000), Some(0x2222_2222 + 4096), Some(0xFFFF_FFFF)] { for b in [None, Some(0u32), Some(0x11111 + 4096), Some(0x22222 + 4097), Some(0xFFFF_FFFF)] {
        v.push((format!("sync {:x?} {:x?}", a, b), fw(Frame::SyncFrame(SyncFrame { next_frame_id: a, next_packet_id: b }))));
    } }
    // datagrams longer than a frame (the MTU admits up to 1500 - 28 bytes, jumbo frames and loopback more): CRC-valid data frames whose only
    // datagram carries more than a fragment, as a single-fragment packet, as the last of two fragments and as the last of 65536
    for total in [1473usize, 1500, 9000] {
        for (fid, seq) in [(0x1111_1111u32, 0x11111u32), (0x2222_2222, 0x22222)] {
            for (f, l) in [(0u16, 0u16), (1, 1), (65535, 65535)] {
                let n = total - 24;
                let mut b: Vec<u8> = vec![10, (fid >> 24) as u8, (fid >> 16) as u8, (fid >> 8) as u8, fid as u8, 1,
                    0xC0, (n >> 8) as u8, n as u8, (seq >> 16) as u8 & 0x0F, (seq >> 8) as u8, seq as u8, 0, 0, 0, 0, (f >> 8) as u8, f as u8, (l >> 8) as u8, l as u8];
                b.extend(std::iter::repeat(0x5A).take(n));
                let c = uflow::verif::crc_compute(&b); b.extend_from_slice(&c.to_be_bytes());
                v.push((format!("oversize data frame {:x} packet {:x} fragment {}/{} of {} bytes ({} B datagram)", fid, seq, f, l, n, b.len()), b));
            }
        }
    }
    // datagrams too short to hold a type byte and a CRC, and the shortest ones with a valid CRC (the CRC of the empty string is 0)
    for n in 0..=8usize { v.push((format!("{} zero bytes", n), vec![0u8; n])); v.push((format!("{} bytes 0xFF", n), vec![0xFF; n])); }
    for n in 0..=3usize { for b in [0u8, 1, 4, 13, 255] {
        let mut d = vec![b; n]; let c = uflow::verif::crc_compute(&d); d.extend_from_slice(&c.to_be_bytes());
        v.push((format!("{} bytes {:#x} + their CRC", n, b), d));
        if n == 0 { break; }
    } }
    v
}

/// a free choice among more alternatives than a choice point holds (255): block of 200 first, then the letter inside it
fn free_big(ch: &mut Chooser, n: usize) -> usize { if n <= 255 { return ch.free(n); } let hi = ch.free((n + 199) / 200); hi * 200 + ch.free((n - hi * 200).min(200)) }

fn ew_states(pairs: bool) -> Scenario {
    let name = format!("C03.states|pairs{}", pairs as u8);
    let run = move |ch: &mut Chooser| -> ExecResult {
        let alpha = extreme_frames();
        // connection states of client 0 over the rounds: pending (SYN-ACKs lost), active, closing (disconnect into silence), closed
        let variant = ch.free(4);
        let r = ch.free(14); let dir = ch.free(3); let a = free_big(ch, alpha.len());
        let second = if pairs { Some((r + ch.free(3), ch.free(3), free_big(ch, alpha.len()))) } else { None };
        let after_send = ch.free(3); // what the application does with client 0 / its server side afterwards
        let mut cfg = EwCfg::new(2); cfg.nonces = vec![0x1111_1111, 0x3333_3333, 0x2222_2222, 0x4444_4444];
        let mut script = vec![at(0, Act::Connect(0)), at(0, Act::Connect(1))];
        let mut env = EwEnv::basic(0, 70);
        env.fates = DF_NONE; env.deltas = &[100]; env.fair_delta = 500; env.stop_when_done = false; env.fuel = 5_000_000;
        match variant { 0 => { env.lose_synack = 4; } 1 => {} 2 => { script.push(at(4, Act::CDisconnectNow(0))); env.blackouts = &[]; } _ => { script.push(at(4, Act::SDisconnectNow(0))); } }
        let inj = |round: usize, dir: usize, k: usize| -> EwOp { let b = alpha[k].1.clone(); at(round, match dir { 0 => Act::Spoof(0, b), 1 => Act::Raw(0, b), _ => Act::RawToClient(0, b) }) };
        script.push(inj(r, dir, a));
        if let Some((r2, d2, a2)) = second { script.push(inj(r2, d2, a2)); }
        match after_send { 0 => {} 1 => { script.push(at(r + 2, Act::CSend(0, 0, SendMode::Reliable, 1))); script.push(at(r + 2, Act::SSend(0, 0, SendMode::Reliable, 1))); }
                           _ => { script.push(at(r + 2, Act::CSend(0, 0, SendMode::Reliable, 3000))); script.push(at(r + 3, Act::SSend(0, 1, SendMode::Unreliable, 0))); script.push(at(r + 4, Act::CDisconnect(0))); } }
        script.push(at(30, Act::CSend(1, 0, SendMode::Reliable, 333))); script.push(at(34, Act::SSend(1, 0, SendMode::Reliable, 222)));
        let mut c0 = Chooser::new(vec![], vec![]);
        let tr = run_ew(&cfg, &script, &env, &mut c0);
        if verbose() { print_ew(&cfg, &tr); }
        let violations = honest_echo_ok(&tr, 1);
        ExecResult { violations, panic: None, outcome: ew_outcome(&tr) ^ (a as u64) << 20 ^ (variant as u64) << 40, states: crate::ew::ew_states(&tr), transitions: tr.obs.len() as u64 * 3, witnesses: ew_witnesses(&tr) << 32,
                     sample: if r == 5 && a % 29 == 3 { Some(format!("state variant {} round {} direction {}: {}", variant, r, dir, alpha[a].0)) } else { None } }
    };
    Scenario { name, d: 0, run: Box::new(run) }
}

/// Reliable 700 B then TimeSensitive packets that do not fit the first flushes, both directions busy
pub fn ts_session() -> Vec<Op> { use SendMode::*; vec![send(0, 0, 0, Reliable, 700), send(0, 0, 0, TimeSensitive, 900), send(0, 0, 1, TimeSensitive, 1448), send(1, 0, 0, Reliable, 100), send(1, 1, 0, Reliable, 50), send(2, 0, 1, TimeSensitive, 30), send(3, 0, 0, Unreliable, 21)] }

pub fn build(quick: bool) -> PropRun {
    let mut scs: Vec<Scenario> = Vec::new();
    use SendMode::*;
    // (a)
    let session = vec![send(0, 0, 0, Reliable, 3000), send(0, 0, 1, Unreliable, 40), send(1, 1, 0, Reliable, 50), send(2, 0, 0, Persistent, 1500), send(4, 0, 1, Reliable, 10), send(5, 1, 1, Unreliable, 1449)];
    for cfg in [LwCfg { pwin: 4, fwin: 4, ..LwCfg::small() }, LwCfg { pwin: 4096, fwin: 4096, pbase: [0xFFFFE, 0xFFFFF], fbase: [0xFFFF_FFFE, 0xFFFF_FFF0], ..LwCfg::small() }, LwCfg { pwin: 8, fwin: 8, rx_alloc: [3 * FRAG, 3 * FRAG], bw: [20_000, 20_000], ..LwCfg::small() }] {
        scs.push(lw_hostile("C03.lw-hostile", cfg.clone(), session.clone(), if quick { 6 } else { 12 }, false));
        if !quick { scs.push(lw_hostile("C03.lw-hostile-pairs", cfg, session.clone(), 8, true)); }
    }
    // a session in which TimeSensitive packets are dequeued but cannot start (the budget is used up) and are given up at the next step
    scs.push(lw_hostile("C03.lw-hostile-ts", LwCfg { pwin: 4096, fwin: 4096, ..LwCfg::small() }, ts_session(), if quick { 4 } else { 8 }, false));
    // (b)
    for tb in 0..=255u8 { if quick && !(tb <= 13 || tb >= 250 || tb % 32 == 0) { continue; } scs.push(ew_flood(tb, if quick { 1 } else { 2 })); }
    scs.push(ew_states(false));
    if !quick { scs.push(ew_states(true)); }
    // (d) the fault explorations of other properties, with the panic / work-budget oracle only
    // every n-th scenario, and every n-th of those whose sequence numbers wrap (frame bases at 2^32, packet bases at 2^20): comparisons of raw ids differ from ring distances only there
    let take = |p: PropRun, n: usize, out: &mut Vec<Scenario>| { let total = p.scenarios.len(); let step = (total / n.max(1)).max(1);
        let wrapping: Vec<usize> = p.scenarios.iter().enumerate().filter(|(_, s)| s.name.contains("fbffffff")).map(|(i, _)| i).collect(); let wstep = (wrapping.len() / n.max(1)).max(1);
        let wpick: std::collections::HashSet<usize> = wrapping.iter().enumerate().filter(|(k, _)| k % wstep == 0).map(|(_, i)| *i).collect();
        for (i, s) in p.scenarios.into_iter().enumerate() { if i % step == 0 || wpick.contains(&i) { let inner = s.run; out.push(Scenario { name: format!("C03.from.{}", s.name), d: s.d, run: Box::new(move |ch: &mut Chooser| { let mut r = inner(ch); r.violations.clear(); r }) }); } } };
    let budget = if quick { 12 } else { 60 };
    for id in ["C01", "C02", "C05", "C11", "C13", "C08", "C09", "C07", "C10", "C17"] { if let Some(p) = crate::props::build(id, if quick { "quick" } else { "thorough" }) { take(p, budget, &mut scs); } }
    // valid API calls at the limits of their arguments: packets of exactly max_packet_size through Client::send / RemoteClient::send
    { let sc = crate::props_ew::c04_api_scenario(4444); let inner = sc.run; scs.push(Scenario { name: format!("C03.from.{}", sc.name), d: sc.d, run: Box::new(move |ch: &mut Chooser| { let mut r = inner(ch); r.violations.clear(); r }) }); }
    // valid configurations at the limits of their types: every EndpointConfig field and the server's connection limits at boundary values, up to 2 (3) at a time
    scs.push(crate::props_ew::config_extremes_scenario("C03", 0, if quick { 2 } else { 3 }));
    // (c)
    let plans: Vec<(bool, usize)> = if quick { vec![(false, 4), (true, 2)] } else { vec![(false, 5), (true, 3)] };
    let mut units = crate::c14::units(&plans, true);
    // (e) the parser sweeps of C16 (every short payload per type byte, substitutions, extensions, truncation at every length with the
    // CRC re-fixed, constant fills) with the panic oracle: Client::step / Server::step hand every datagram to Frame::read
    crate::c16::FOR_C03.store(true, std::sync::atomic::Ordering::Relaxed);
    units.extend(crate::c16::parse_units(quick));
    units.extend(crate::c14::loss_units(if quick { 6 } else { 8 }, true));
    // (f) the reassembly sweep of C04 (every arrival order, duplication and every fragment disagreeing with the first one seen) with the panic oracle
    crate::c04::FOR_C03.store(true, std::sync::atomic::Ordering::Relaxed);
    units.extend(crate::c04::receiver_units(quick));
    PropRun { level: "fault_enumeration", scenarios: scs, units, replay_case: Some(replay_case_c03), summary: Summary {
        rule: "every explored execution runs under catch_unwind with a per-call work budget (2*10^6 loop iterations counted by the fuel hooks) and a 30 s wall-clock watchdog: (a) every hostile data/ack/sync frame of a state-relative boundary alphabet injected into either endpoint at every round of a link-world session, followed by step spacings 0/1/20/2000 ms; (b) every payload of <= 1-2 bytes after every type byte and a list of frames with extreme fields, from the connected address, from a stranger and towards the client, in the pending/active/closing/closed states, after which an honest second client must still be served; (c) all TFRC event sequences of C14; (e) the parser sweeps of C16 with the panic oracle; (d) a cross-section of the fault explorations of C01, C02, C05, C07-C11, C13, C17".into(),
        bounds: json!({"lw_rounds": if quick { 6 } else { 12 }, "lw_pairs": !quick, "flood_payload_len": if quick { 1 } else { 2 }, "flood_type_bytes": if quick { "0-13, 32, 64, ..., 250-255" } else { "all 256" }, "extreme_frames": extreme_frames().len(), "tfrc_plans": plans, "fuel_per_call": 2_000_000}),
        assumptions: vec!["build profile: release with debug-assertions and overflow-checks on, so a debug_assert or arithmetic overflow reachable from network input counts as a panic".into(),
                          "a hostile peer may legitimately ruin its own connection; what is asked is that no call panics or fails to return and that other connections are still served".into()],
        witness_names: { let mut w = WITNESSES.to_vec(); while w.len() < 20 { w.push("-"); } w.push("hostile frame injected"); while w.len() < 32 { w.push("-"); } w.extend_from_slice(crate::eprops::EW_WITNESSES); w }, extra: json!({}), exhaustive: true } }
}

pub fn replay_case_c03(case: &str) -> Vec<Violation> {
    if case.starts_with("case:lossq:") { return crate::c14::loss_decode(case).map_or(vec![], |seq| match crate::c14::run_loss_seq(&seq).2 { Some(p) => vec![viol("C03.panic", format!("C03.panic:loss-intervals:{}", p.rsplit(" @ ").next().unwrap_or("")), p)], None => vec![] }); }
    if case.starts_with("case:frag:") { crate::c04::FOR_C03.store(true, std::sync::atomic::Ordering::Relaxed); return crate::c04::replay_case(case); }
    if case.starts_with("case:parse:") { crate::c16::FOR_C03.store(true, std::sync::atomic::Ordering::Relaxed); return crate::c16::replay_case(case); }
    crate::c14::replay_case_c03(case)
}
