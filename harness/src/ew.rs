//! Endpoint world: one real `Server`, real `Client`s and raw peers on the in-memory network of
//! feature `verif`. The harness owns every datagram between rounds, the clock, the handshake
//! nonces (optionally forced) and the application calls.

use crate::explore::*;
use std::net::SocketAddr;
use uflow::verif::frame::*;
use uflow::verif::net as vnet;
use uflow::verif::*;
use uflow::{client, server, EndpointConfig, SendMode};

pub const SERVER_ADDR: &str = "127.0.0.1:7000";
pub fn saddr() -> SocketAddr { SERVER_ADDR.parse().unwrap() }
pub fn caddr(i: usize) -> SocketAddr { format!("127.0.0.1:{}", 41000 + i).parse().unwrap() }
pub fn raddr(i: usize) -> SocketAddr { format!("127.0.0.1:{}", 45000 + i).parse().unwrap() }

#[derive(Clone, Debug)]
pub struct EwCfg {
    pub server: EndpointConfig,
    pub max_total: usize,
    pub max_active: usize,
    pub handshake_errors: bool,
    pub clients: Vec<EndpointConfig>,
    /// forced handshake nonces, in order of generation (client 0 SYN, server SYN-ACK, ...); empty = seeded generator
    pub nonces: Vec<u32>,
    /// the server application greets every address it is told has connected (raw peers included) with one Reliable packet of this many bytes (0 = no greeting)
    pub greet: usize,
}

impl EwCfg {
    pub fn new(n_clients: usize) -> Self {
        Self { server: EndpointConfig::default(), max_total: 4096, max_active: 32, handshake_errors: true, clients: vec![EndpointConfig::default(); n_clients], nonces: vec![], greet: 0 }
    }
    pub fn name(&self) -> String {
        let ec = |c: &EndpointConfig| format!("s{}r{}p{}a{}k{}.{}t{}", c.max_send_rate, c.max_receive_rate, c.max_packet_size, c.max_receive_alloc, c.keepalive as u8, c.keepalive_interval_ms, c.active_timeout_ms);
        format!("srv[{}]mt{}ma{}he{}|cl[{}]|n{:x?}", ec(&self.server), self.max_total, self.max_active, self.handshake_errors as u8, self.clients.iter().map(ec).collect::<Vec<_>>().join(","), self.nonces) + &(if self.greet > 0 { format!("|greet{}", self.greet) } else { String::new() })
    }
}

#[derive(Clone, Debug, PartialEq)]
pub enum Act {
    /// create client i (Client::connect), bound to its fixed address
    Connect(usize),
    /// drop the Client object i (application exit; frees the address)
    Forget(usize),
    CSend(usize, u8, SendMode, usize),
    CDisconnect(usize),
    CDisconnectNow(usize),
    CFlush(usize),
    SSend(usize, u8, SendMode, usize),
    SDisconnect(usize),
    SDisconnectNow(usize),
    SDrop(usize),
    SFlush,
    /// raw peer r sends these bytes to the server
    Raw(usize, Vec<u8>),
    /// raw bytes delivered to client i, claiming to come from the server address
    RawToClient(usize, Vec<u8>),
    /// raw bytes sent to the server with client i's address as source (spoofed)
    Spoof(usize, Vec<u8>),
}

#[derive(Clone, Debug, PartialEq)]
pub enum When {
    Round(usize),
    /// k rounds after client i reported Connect
    AfterCConnect(usize, usize),
    /// k rounds after the server reported Connect for client i
    AfterSConnect(usize, usize),
}

#[derive(Clone, Debug)]
pub struct EwOp { pub when: When, pub act: Act }
pub fn at(r: usize, act: Act) -> EwOp { EwOp { when: When::Round(r), act } }
pub fn after_c(i: usize, k: usize, act: Act) -> EwOp { EwOp { when: When::AfterCConnect(i, k), act } }
pub fn after_s(i: usize, k: usize, act: Act) -> EwOp { EwOp { when: When::AfterSConnect(i, k), act } }

#[derive(Clone, Copy, Debug, PartialEq)]
pub enum DFate { Deliver, Drop, Dup, Hold2, HoldLong }
pub const DF_ALL: &[DFate] = &[DFate::Deliver, DFate::Drop, DFate::Dup, DFate::Hold2, DFate::HoldLong];
pub const DF_BASIC: &[DFate] = &[DFate::Deliver, DFate::Drop, DFate::Dup, DFate::Hold2];
pub const DF_LOSS: &[DFate] = &[DFate::Deliver, DFate::Drop];
pub const DF_NONE: &[DFate] = &[DFate::Deliver];

#[derive(Clone, Debug)]
pub struct EwEnv {
    pub fates: &'static [DFate],
    /// fates apply only to datagrams whose frame type byte is in this list (empty = all)
    pub fate_types: &'static [u8],
    /// if true fate choices are free (complete enumeration), else each costs a deviation
    pub fates_free: bool,
    pub deltas: &'static [u64],
    pub dev_start: usize,
    pub dev_rounds: usize,
    pub max_rounds: usize,
    /// application actions offered as deviations at every round of the window (index 0 = nothing)
    pub app_menu: Vec<Act>,
    /// per-round choice: server / client 0 skips its step this round
    pub skip_choice: bool,
    pub fair_delta: u64,
    /// permanent blackout choice: from some round of the window on, all datagrams (mask 1 = to server, 2 = to clients) are lost
    pub blackouts: &'static [u8],
    /// lengths (in rounds) a chosen blackout may have; empty = it lasts until the end of the run. The length is a free choice.
    pub blackout_lens: &'static [usize],
    /// stop when every client object is finished (terminal seen or never connected) and the server tracks nothing
    pub stop_when_done: bool,
    pub fuel: u64,
    /// long-hold delay in rounds for DFate::HoldLong
    pub long_hold: usize,
    /// scripted losses (not choices): the first k SYN / SYN-ACK datagrams are dropped
    pub lose_syn: usize,
    pub lose_synack: usize,
    /// the applications read the events of a step() only after their next call of step() (the iterator is kept across the call, which its
    /// signature and documentation allow); events are then recorded one round late
    pub late_events: bool,
    /// one endpoint's application stops calling step() for a while (1 = the server, 2 = client 0; length in rounds): one costly choice of
    /// which stall, its first round a free choice over the deviation window
    pub stalls: &'static [(u8, usize)],
    /// the server application keeps a clone of the handle `Server::client()` returns for every connection it is told of, until the run ends
    pub keep_handles: bool,
    /// a stranger sends this many unparsable datagrams to the server in every round
    pub junk_per_round: usize,
}

impl EwEnv {
    pub fn name(&self) -> String {
        format!("f{}{}t{:?}d{:?}fd{}ls{}.{}dev{}+{}max{}app{}{}bl{}", self.fates.len(), if self.fates_free { "free" } else { "" }, self.fate_types, self.deltas, self.fair_delta, self.lose_syn, self.lose_synack, self.dev_start, self.dev_rounds, self.max_rounds, self.app_menu.len(), if self.skip_choice { "S" } else { "" }, self.blackouts.len()) + &(if self.blackout_lens.is_empty() { String::new() } else { format!("x{:?}", self.blackout_lens) }) + if self.late_events { "late" } else { "" } + &(if self.stalls.is_empty() { String::new() } else { format!("stall{:?}", self.stalls) }) + if self.keep_handles { "handles" } else { "" } + &(if self.junk_per_round > 0 { format!("junk{}", self.junk_per_round) } else { String::new() })
    }
    pub fn basic(dev_rounds: usize, max_rounds: usize) -> Self {
        Self { fates: DF_BASIC, fate_types: &[], fates_free: false, deltas: &[100, 0, 1000, 2000], dev_start: 0, dev_rounds, max_rounds, app_menu: vec![], skip_choice: false, fair_delta: 100, blackouts: &[], blackout_lens: &[], stop_when_done: true, fuel: 2_000_000, long_hold: 12, lose_syn: 0, lose_synack: 0, late_events: false, stalls: &[], keep_handles: false, junk_per_round: 0 }
    }
}

#[derive(Clone, Debug, PartialEq)]
pub enum Ev { Connect, Disconnect, Receive(Vec<u8>), Error(u8) } // error: 0 timeout 1 version 2 config 3 serverfull

pub fn ev_name(e: &Ev) -> String { match e { Ev::Connect => "Connect".into(), Ev::Disconnect => "Disconnect".into(), Ev::Receive(d) => format!("Receive({}B)", d.len()), Ev::Error(k) => format!("Error({})", ["Timeout", "Version", "Config", "ServerFull"][*k as usize]) } }

#[derive(Clone, Debug)]
pub struct EvRec { pub round: usize, pub t_ms: u64, pub ev: Ev, /// index of the client object generation (client side) or client index (server side)
    pub gen: usize }

#[derive(Clone, Debug)]
pub struct Dgram { /// index into `calls` of the application call that sent it (None: sent from inside a step or injected)
    pub call: Option<usize>, /// round in which the datagram was sent, and whether it was sent from inside a step() (true) or by an application call / injection (false)
    pub sent_round: usize, pub by_step: bool, pub round: usize, pub t_ms: u64, pub src: SocketAddr, pub dst: SocketAddr, pub bytes: Vec<u8>, pub frame: Option<Frame>, pub fate: DFate, pub injected: bool }

#[derive(Clone, Debug)]
pub struct Delivered { pub round: usize, pub t_ms: u64, pub dg: usize }

#[derive(Clone, Debug)]
pub struct ApiCall { pub round: usize, pub t_ms: u64, pub act: Act, pub from_menu: bool, pub gen: usize }

#[derive(Clone, Debug, Default)]
pub struct EwObs { pub round: usize, pub t_ms: u64, pub c_active: Vec<bool>, pub c_exists: Vec<bool>, pub s_active: Vec<bool>, pub s_known: Vec<bool>, pub counts: (usize, usize), pub c_sbs: Vec<usize>, pub s_sbs: Vec<usize>, pub c_rtt: Vec<Option<f64>>, pub s_rtt: Vec<Option<f64>>, pub s_stepped: bool, pub c_stepped: Vec<bool>, pub s_probe: Vec<Option<Probe>>, pub c_probe: Vec<Option<Probe>> }

#[derive(Default)]
pub struct EwTrace {
    pub cev: Vec<Vec<EvRec>>,   // per client index
    pub sev: Vec<Vec<EvRec>>,   // per client index (events of the server about that address); index n = raw/unknown addresses
    pub wire: Vec<Dgram>,
    pub delivered: Vec<Delivered>,
    pub calls: Vec<ApiCall>,
    pub obs: Vec<EwObs>,
    pub rounds: usize,
    pub gens: Vec<usize>,       // generation counter per client index (number of Connect acts so far)
    pub blackout: Option<(usize, u8)>,
    pub last_dev_round: usize,
    pub c_connect_round: Vec<Option<usize>>,
    pub s_connect_round: Vec<Option<usize>>,
}

struct Held { due: usize, seq: usize, dg: usize }

fn cerr(e: &client::ErrorType) -> u8 { match e { client::ErrorType::Timeout => 0, client::ErrorType::Version => 1, client::ErrorType::Config => 2, client::ErrorType::ServerFull => 3 } }
fn serr(e: &server::ErrorType) -> u8 { match e { server::ErrorType::Timeout => 0, server::ErrorType::Version => 1, server::ErrorType::Config => 2, server::ErrorType::ServerFull => 3 } }

pub fn client_index(a: &SocketAddr) -> Option<usize> { let p = a.port() as usize; if p >= 41000 && p < 41100 { Some(p - 41000) } else { None } }

pub fn ew_payload(dir: usize, ci: usize, ch: u8, idx: u32, size: usize) -> Box<[u8]> { crate::lw::payload(dir + 2 * ci, ch, idx, size) }

pub struct EwWorld {
    pub server: Option<server::Server>,
    pub clients: Vec<Option<client::Client>>,
}

/// One execution of the endpoint world.
pub fn run_ew(cfg: &EwCfg, script: &[EwOp], env: &EwEnv, ch: &mut Chooser) -> EwTrace {
    vnet::reset(); set_time_ms(0); seed(0xE0_5EED); set_fuel(u64::MAX);
    if !cfg.nonces.is_empty() { force_u32(&cfg.nonces); }
    let n = cfg.clients.len();
    let mut tr = EwTrace::default();
    tr.cev = vec![Vec::new(); n]; tr.sev = vec![Vec::new(); n + 1]; tr.gens = vec![0; n];
    tr.c_connect_round = vec![None; n]; tr.s_connect_round = vec![None; n];
    let scfg = server::Config { max_total_connections: cfg.max_total, max_active_connections: cfg.max_active, enable_handshake_errors: cfg.handshake_errors, endpoint_config: cfg.server.clone() };
    let mut srv = server::Server::bind(SERVER_ADDR, scfg).expect("bind");
    let mut clients: Vec<Option<client::Client>> = (0..n).map(|_| None).collect();
    let mut held_s: Option<Box<dyn Iterator<Item = server::Event>>> = None;
    let mut held_c: Vec<Option<Box<dyn Iterator<Item = client::Event>>>> = (0..n).map(|_| None).collect();
    let mut held: Vec<Held> = Vec::new();
    let mut now = 0u64; let mut seq = 0usize;
    let mut counters: std::collections::HashMap<(usize, usize, u8), u32> = Default::default();
    let mut done_ops: Vec<bool> = vec![false; script.len()];
    let mut blackout: Option<(usize, u8)> = None;
    let mut blackout_end = usize::MAX;
    if !env.blackouts.is_empty() {
        let n = env.blackouts.len() * env.dev_rounds;
        let k = if n + 1 <= 255 { ch.choose(n + 1) } else { let b = ch.choose(env.blackouts.len() + 1); if b == 0 { 0 } else { 1 + ch.free(env.dev_rounds) * env.blackouts.len() + (b - 1) } };
        if k > 0 { let k = k - 1; blackout = Some((env.dev_start + k / env.blackouts.len(), env.blackouts[k % env.blackouts.len()])); }
        if blackout.is_some() && !env.blackout_lens.is_empty() { blackout_end = blackout.unwrap().0 + env.blackout_lens[ch.free(env.blackout_lens.len())]; }
    }
    tr.blackout = blackout;
    let mut stall: Option<(usize, u8, usize)> = None;
    if !env.stalls.is_empty() {
        let k = ch.choose(env.stalls.len() + 1);
        if k > 0 { let (who, len) = env.stalls[k - 1]; stall = Some((env.dev_start + ch.free(env.dev_rounds.max(1)), who, len)); }
    }
    let mut kept_handles: Vec<std::rc::Rc<std::cell::RefCell<server::RemoteClient>>> = Vec::new();
    let mut quiet = 0; let mut lost_syn = 0usize; let mut lost_synack = 0usize;
    for round in 0..env.max_rounds {
        let dev = round >= env.dev_start && round < env.dev_start + env.dev_rounds;
        // datagrams sent from inside the previous round's steps
        let from_steps = vnet::take_wire();
        let mut from_acts: Vec<(Option<usize>, (SocketAddr, SocketAddr, Vec<u8>))> = Vec::new();
        // --- application calls: scripted ops whose trigger holds, then (deviation) one op from the menu
        let mut acts: Vec<(Act, bool)> = Vec::new();
        for (i, op) in script.iter().enumerate() {
            if done_ops[i] { continue; }
            let fire = match op.when {
                When::Round(r) => r == round,
                When::AfterCConnect(c, k) => tr.c_connect_round[c].map_or(false, |r| round == r + k),
                When::AfterSConnect(c, k) => tr.s_connect_round[c].map_or(false, |r| round == r + k),
            };
            if fire { done_ops[i] = true; acts.push((op.act.clone(), false)); }
        }
        if dev && !env.app_menu.is_empty() {
            let k = ch.choose(env.app_menu.len() + 1);
            if k > 0 { tr.last_dev_round = round; acts.push((env.app_menu[k - 1].clone(), true)); }
        }
        // --- clock
        let dsel = if dev { ch.choose(env.deltas.len()) } else { usize::MAX };
        if dsel != usize::MAX && dsel != 0 { tr.last_dev_round = round; }
        now += if dsel == usize::MAX { env.fair_delta } else { env.deltas[dsel] };
        set_time_ms(now);
        for (act, from_menu) in acts {
            set_fuel(env.fuel);
            let gen = match &act { Act::Connect(i) | Act::Forget(i) | Act::CSend(i, ..) | Act::CDisconnect(i) | Act::CDisconnectNow(i) | Act::CFlush(i) | Act::SSend(i, ..) | Act::SDisconnect(i) | Act::SDisconnectNow(i) | Act::SDrop(i) | Act::RawToClient(i, _) | Act::Spoof(i, _) => tr.gens.get(*i).copied().unwrap_or(0), _ => 0 };
            match &act {
                Act::Connect(i) => {
                    clients[*i] = None; // frees the address if an old object still exists
                    vnet::set_next_port(41000 + *i as u16);
                    let c = client::Client::connect(SERVER_ADDR, client::Config { endpoint_config: cfg.clients[*i].clone() }).expect("connect");
                    clients[*i] = Some(c);
                    tr.gens[*i] += 1;
                    tr.c_connect_round[*i] = None;
                    for k in counters.keys().cloned().collect::<Vec<_>>() { if k.1 == *i { counters.remove(&k); } }
                }
                Act::Forget(i) => { clients[*i] = None; held_c[*i] = None; }
                Act::CSend(i, chn, mode, size) => {
                    // the per-channel index counts every call, whether or not an object exists to take the packet
                    let idx = { let e = counters.entry((0, *i, *chn)).or_insert(0); let v = *e; *e += 1; v };
                    if let Some(c) = clients[*i].as_mut() {
                        c.send(ew_payload(0, *i, *chn, idx, *size), *chn as usize, *mode);
                    }
                }
                Act::CDisconnect(i) => { if let Some(c) = clients[*i].as_mut() { c.disconnect(); } }
                Act::CDisconnectNow(i) => { if let Some(c) = clients[*i].as_mut() { c.disconnect_now(); } }
                Act::CFlush(i) => { if let Some(c) = clients[*i].as_mut() { c.flush(); } }
                Act::SSend(i, chn, mode, size) => {
                    let idx = { let e = counters.entry((1, *i, *chn)).or_insert(0); let v = *e; *e += 1; v };
                    if let Some(rc) = srv.client(&caddr(*i)) {
                        rc.borrow_mut().send(ew_payload(1, *i, *chn, idx, *size), *chn as usize, *mode);
                    }
                }
                Act::SDisconnect(i) => { if let Some(rc) = srv.client(&caddr(*i)) { rc.borrow_mut().disconnect(); } }
                Act::SDisconnectNow(i) => { if let Some(rc) = srv.client(&caddr(*i)) { rc.borrow_mut().disconnect_now(); } }
                Act::SDrop(i) => { srv.drop(&caddr(*i)); }
                Act::SFlush => { srv.flush(); }
                Act::Raw(r, bytes) => {
                    let dgi = tr.wire.len();
                    tr.wire.push(Dgram { call: None, sent_round: round, by_step: false, round, t_ms: now, src: raddr(*r), dst: saddr(), bytes: bytes.clone(), frame: Frame::read(bytes), fate: DFate::Deliver, injected: true });
                    held.push(Held { due: round, seq, dg: dgi }); seq += 1;
                }
                Act::Spoof(i, bytes) => {
                    let dgi = tr.wire.len();
                    tr.wire.push(Dgram { call: None, sent_round: round, by_step: false, round, t_ms: now, src: caddr(*i), dst: saddr(), bytes: bytes.clone(), frame: Frame::read(bytes), fate: DFate::Deliver, injected: true });
                    held.push(Held { due: round, seq, dg: dgi }); seq += 1;
                }
                Act::RawToClient(i, bytes) => {
                    let dgi = tr.wire.len();
                    tr.wire.push(Dgram { call: None, sent_round: round, by_step: false, round, t_ms: now, src: saddr(), dst: caddr(*i), bytes: bytes.clone(), frame: Frame::read(bytes), fate: DFate::Deliver, injected: true });
                    held.push(Held { due: round, seq, dg: dgi }); seq += 1;
                }
            }
            for d in vnet::take_wire() { from_acts.push((Some(tr.calls.len()), d)); }
            tr.calls.push(ApiCall { round, t_ms: now, act, from_menu, gen });
        }
        // --- datagrams put on the wire since the previous round get their fate
        let n_steps = from_steps.len();
        for (k, (call, (src, dst, bytes))) in from_steps.into_iter().map(|d| (None, d)).chain(std::mem::take(&mut from_acts).into_iter()).enumerate() {
            let by_step = k < n_steps;
            let frame = Frame::read(&bytes);
            let to_server = dst == saddr();
            let blacked = match blackout { Some((r0, mask)) => round >= r0 && round < blackout_end && ((to_server && mask & 1 != 0) || (!to_server && mask & 2 != 0)), None => false };
            let eligible = env.fate_types.is_empty() || bytes.first().map_or(false, |b| env.fate_types.contains(b));
            let scripted_loss = match bytes.first() { Some(0) if lost_syn < env.lose_syn => { lost_syn += 1; true } Some(1) if lost_synack < env.lose_synack => { lost_synack += 1; true } _ => false };
            let fate = if blacked || scripted_loss { DFate::Drop } else if dev && env.fates.len() > 1 && eligible {
                let k = if env.fates_free { ch.free(env.fates.len()) } else { ch.choose(env.fates.len()) };
                if k != 0 { tr.last_dev_round = round; }
                env.fates[k]
            } else { DFate::Deliver };
            let dgi = tr.wire.len();
            tr.wire.push(Dgram { call, sent_round: if by_step { round.saturating_sub(1) } else { round }, by_step, round, t_ms: now, src, dst, bytes, frame, fate, injected: false });
            let mut push = |due: usize, seq: &mut usize| { held.push(Held { due, seq: *seq, dg: dgi }); *seq += 1; };
            match fate {
                DFate::Deliver => push(round, &mut seq),
                DFate::Drop => {}
                DFate::Dup => { push(round, &mut seq); push(round + 1, &mut seq); }
                DFate::Hold2 => push(round + 2, &mut seq),
                DFate::HoldLong => { push(round, &mut seq); push(round + env.long_hold, &mut seq); }
            }
        }
        // --- deliver what is due
        let mut due: Vec<Held> = Vec::new(); let mut rest: Vec<Held> = Vec::new();
        for h in held.drain(..) { if h.due <= round { due.push(h) } else { rest.push(h) } }
        held = rest;
        due.sort_by_key(|h| (h.due, h.seq));
        // a stranger's unparsable datagrams arrive ahead of everything else delivered in this round
        for j in 0..env.junk_per_round { vnet::deliver(raddr(9), saddr(), vec![0xEE, j as u8, round as u8, 0x55, 0xAA]); }
        for h in due {
            let d = &tr.wire[h.dg];
            if vnet::deliver(d.src, d.dst, d.bytes.clone()) { tr.delivered.push(Delivered { round, t_ms: now, dg: h.dg }); }
        }
        // --- endpoints step
        let mut skip = if dev && env.skip_choice { ch.choose(3) } else { 0 };
        if let Some((r0, who, len)) = stall { if round >= r0 && round < r0 + len { skip = who as usize; } }
        if skip != 0 { tr.last_dev_round = round; }
        let mut ob = EwObs { round, t_ms: now, ..Default::default() };
        ob.s_stepped = skip != 1;
        if skip != 1 {
            set_fuel(env.fuel);
            let evs: Vec<server::Event> = if env.late_events { let it: Box<dyn Iterator<Item = server::Event>> = Box::new(srv.step()); match held_s.replace(it) { Some(old) => old.collect(), None => vec![] } } else { srv.step().collect() };
            for e in evs {
                let (addr, ev) = match e {
                    server::Event::Connect(a) => (a, Ev::Connect),
                    server::Event::Disconnect(a) => (a, Ev::Disconnect),
                    server::Event::Receive(a, d) => (a, Ev::Receive(d.to_vec())),
                    server::Event::Error(a, k) => (a, Ev::Error(serr(&k))),
                };
                let ci = client_index(&addr).filter(|c| *c < n).unwrap_or(n);
                if ev == Ev::Connect && ci < n { tr.s_connect_round[ci] = Some(round); }
                if ev == Ev::Connect && env.keep_handles { if let Some(rc) = srv.client(&addr) { kept_handles.push(std::rc::Rc::clone(rc)); } }
                if ev == Ev::Connect && cfg.greet > 0 && ci >= n { if let Some(rc) = srv.client(&addr) { rc.borrow_mut().send(vec![0x47u8; cfg.greet].into_boxed_slice(), 0, SendMode::Reliable); } }
                let gen = if ci < n { tr.gens[ci] } else { 0 };
                tr.sev[ci].push(EvRec { round, t_ms: now, ev, gen });
            }
        }
        for i in 0..n {
            let stepped = !(skip == 2 && i == 0);
            ob.c_stepped.push(stepped && clients[i].is_some());
            if !stepped { continue; }
            if let Some(c) = clients[i].as_mut() {
                set_fuel(env.fuel);
                let evs: Vec<client::Event> = if env.late_events { let it: Box<dyn Iterator<Item = client::Event>> = Box::new(c.step()); match held_c[i].replace(it) { Some(old) => old.collect(), None => vec![] } } else { c.step().collect() };
                for e in evs {
                    let ev = match e {
                        client::Event::Connect => Ev::Connect,
                        client::Event::Disconnect => Ev::Disconnect,
                        client::Event::Receive(d) => Ev::Receive(d.to_vec()),
                        client::Event::Error(k) => Ev::Error(cerr(&k)),
                    };
                    if ev == Ev::Connect { tr.c_connect_round[i] = Some(round); }
                    tr.cev[i].push(EvRec { round, t_ms: now, ev, gen: tr.gens[i] });
                }
            }
        }
        set_fuel(u64::MAX);
        for i in 0..n {
            ob.c_exists.push(clients[i].is_some());
            ob.c_active.push(clients[i].as_ref().map_or(false, |c| c.is_active()));
            ob.c_sbs.push(clients[i].as_ref().map_or(0, |c| c.send_buffer_size()));
            ob.c_probe.push(clients[i].as_ref().and_then(|c| c.verif_probe()));
            let rc = srv.client(&caddr(i));
            ob.s_known.push(rc.is_some());
            ob.s_active.push(rc.map_or(false, |r| r.borrow().is_active()));
            ob.s_sbs.push(rc.map_or(0, |r| r.borrow().send_buffer_size()));
            ob.c_rtt.push(clients[i].as_ref().and_then(|c| c.rtt_s()));
            ob.s_rtt.push(rc.and_then(|r| r.borrow().rtt_s()));
            ob.s_probe.push(rc.and_then(|r| r.borrow().verif_probe()));
        }
        ob.counts = srv.verif_counts();
        tr.obs.push(ob);
        tr.rounds = round + 1;
        if env.stop_when_done && round >= env.dev_start + env.dev_rounds && done_ops.iter().zip(script.iter()).all(|(d, o)| *d || !matches!(o.when, When::Round(_))) {
            let o = tr.obs.last().unwrap();
            let idle = held.is_empty() && o.counts.0 == 0 && (0..n).all(|i| !o.c_exists[i] || client_finished(&tr.cev[i], tr.gens[i]));
            if idle { quiet += 1; if quiet >= 2 { break; } } else { quiet = 0; }
        }
    }
    set_fuel(u64::MAX);
    // datagrams sent by the last round's steps are recorded too (never delivered)
    for (src, dst, bytes) in vnet::take_wire() {
        let frame = Frame::read(&bytes);
        tr.wire.push(Dgram { call: None, sent_round: tr.rounds.saturating_sub(1), by_step: true, round: tr.rounds, t_ms: now, src, dst, bytes, frame, fate: DFate::Drop, injected: false });
    }
    drop(clients); drop(srv);
    tr
}

pub fn client_finished(evs: &[EvRec], gen: usize) -> bool {
    evs.iter().any(|e| e.gen == gen && matches!(e.ev, Ev::Disconnect | Ev::Error(_)))
}

pub fn ew_outcome(tr: &EwTrace) -> u64 {
    let mut h = 0xcbf29ce484222325u64;
    for (i, v) in tr.cev.iter().enumerate() { for e in v { h = fnv(h, (i as u64) << 32 | ev_code(&e.ev) << 16 | (e.round as u64 & 0xFFFF)); } }
    for (i, v) in tr.sev.iter().enumerate() { for e in v { h = fnv(h, 0x8000_0000_0000 | (i as u64) << 32 | ev_code(&e.ev) << 16 | (e.round as u64 & 0xFFFF)); } }
    h = fnv(h, tr.wire.len() as u64); h = fnv(h, tr.rounds as u64);
    h
}
fn ev_code(e: &Ev) -> u64 { match e { Ev::Connect => 1, Ev::Disconnect => 2, Ev::Receive(d) => 3 + ((d.len() as u64) << 4 & 0xFFF0), Ev::Error(k) => 4 + *k as u64 * 16 } }

pub fn ew_states(tr: &EwTrace) -> Vec<u64> {
    let mut v = Vec::with_capacity(tr.obs.len());
    let mut ce = vec![0usize; tr.cev.len()]; let mut se = vec![0usize; tr.sev.len()];
    for o in tr.obs.iter() {
        let mut h = 0xcbf29ce484222325u64;
        for (i, evs) in tr.cev.iter().enumerate() { while ce[i] < evs.len() && evs[ce[i]].round <= o.round { ce[i] += 1; } h = fnv(h, ce[i] as u64); if let Some(e) = evs[..ce[i]].last() { h = fnv(h, ev_code(&e.ev)); } }
        for (i, evs) in tr.sev.iter().enumerate() { while se[i] < evs.len() && evs[se[i]].round <= o.round { se[i] += 1; } h = fnv(h, se[i] as u64); if let Some(e) = evs[..se[i]].last() { h = fnv(h, ev_code(&e.ev)); } }
        for b in o.c_active.iter().chain(o.c_exists.iter()).chain(o.s_active.iter()).chain(o.s_known.iter()) { h = fnv(h, *b as u64); }
        h = fnv(h, o.counts.0 as u64); h = fnv(h, o.counts.1 as u64);
        for s in o.c_sbs.iter().chain(o.s_sbs.iter()) { h = fnv(h, *s as u64); }
        v.push(h);
    }
    v
}

pub fn frame_kind(f: &Option<Frame>, bytes: &[u8]) -> String {
    match f {
        Some(Frame::HandshakeSynFrame(s)) => format!("SYN(v{} n{:x})", s.version, s.nonce),
        Some(Frame::HandshakeSynAckFrame(s)) => format!("SYNACK(ack{:x} n{:x})", s.nonce_ack, s.nonce),
        Some(Frame::HandshakeAckFrame(s)) => format!("ACK(ack{:x})", s.nonce_ack),
        Some(Frame::HandshakeErrorFrame(s)) => format!("ERR({:?} ack{:x})", s.error, s.nonce_ack),
        Some(Frame::DisconnectFrame(_)) => "DISC".into(),
        Some(Frame::DisconnectAckFrame(_)) => "DISCACK".into(),
        Some(Frame::DataFrame(d)) => format!("data#{:x}[{}]", d.sequence_id, d.datagrams.len()),
        Some(Frame::SyncFrame(s)) => format!("sync({:?},{:?})", s.next_frame_id, s.next_packet_id),
        Some(Frame::AckFrame(a)) => format!("ack(fb{:x} pb{:x} g{})", a.frame_window_base_id, a.packet_window_base_id, a.frame_acks.len()),
        None => format!("garbage({}B)", bytes.len()),
    }
}

pub fn print_ew(cfg: &EwCfg, tr: &EwTrace) {
    println!("--- EW trace: cfg={} rounds={} blackout={:?}", cfg.name(), tr.rounds, tr.blackout);
    for r in 0..tr.rounds {
        let mut line = String::new();
        for c in tr.calls.iter().filter(|c| c.round == r) { line.push_str(&format!(" CALL{}[{:?}]", if c.from_menu { "*" } else { "" }, short_act(&c.act))); }
        for d in tr.wire.iter().filter(|d| d.round == r) { line.push_str(&format!(" {}>{}:{}{}{}", d.src.port(), d.dst.port(), frame_kind(&d.frame, &d.bytes), if d.injected { "(inj)" } else { "" }, if d.fate != DFate::Deliver { format!("!{:?}", d.fate) } else { String::new() })); }
        for (i, v) in tr.cev.iter().enumerate() { for e in v.iter().filter(|e| e.round == r) { line.push_str(&format!(" C{}:{}", i, ev_name(&e.ev))); } }
        for (i, v) in tr.sev.iter().enumerate() { for e in v.iter().filter(|e| e.round == r) { line.push_str(&format!(" S[{}]:{}", i, ev_name(&e.ev))); } }
        let o = &tr.obs[r];
        if !line.is_empty() || r + 1 == tr.rounds { println!("r{:4} t={:7}ms |{} || c_active={:?} s_active={:?} counts={:?}", r, o.t_ms, line, o.c_active, o.s_active, o.counts); }
        if std::env::var("VERIF_PROBES").is_ok() && r % 10 == 0 {
            for (who, p) in o.c_probe.iter().map(|p| ("C", p)).chain(o.s_probe.iter().map(|p| ("S", p))) { if let Some(p) = p {
                println!("        {} rate={:.0} credit={} rto={:?} resend={} pending={} sendq={} ackq={} txp {:x}..{:x} txf {:x}..{:x} log {:x}+{}", who, p.send_rate, p.flush_alloc, p.rto_ms, p.resend_len, p.pending_len, p.send_queue_len, p.ack_queue_len, p.tx_packet_base, p.tx_packet_next, p.tx_frame_base, p.tx_frame_next, p.tx_frame_log_base, p.tx_frame_log_len);
            } }
        }
    }
}

fn short_act(a: &Act) -> String { match a { Act::Spoof(i, b) => format!("Spoof({}, {})", i, frame_kind(&Frame::read(b), b)), Act::Raw(r, b) => format!("Raw({}, {})", r, frame_kind(&Frame::read(b), b)), Act::RawToClient(i, b) => format!("RawToClient({}, {})", i, frame_kind(&Frame::read(b), b)), other => format!("{:?}", other) } }

pub fn script_name(ops: &[EwOp]) -> String {
    ops.iter().map(|o| format!("{}:{}", match o.when { When::Round(r) => format!("@{}", r), When::AfterCConnect(c, k) => format!("cc{}+{}", c, k), When::AfterSConnect(c, k) => format!("sc{}+{}", c, k) }, short_act(&o.act))).collect::<Vec<_>>().join(";")
}
