//! CLI of the verification harness.
//!   harness <ID> [quick|thorough]      run the check of one property, write evidence/<ID>.json
//!   harness --replay <file>            re-run a recorded violation twice and print its trace
//!   harness --list <ID> [tier]         list scenario names
//! Exit codes: 0 held on everything explored; 1 violation (VIOLATION line printed); 2 machinery failure.

mod explore;
mod report;
mod lw;
mod lwprops;
mod props;
mod c06;
mod ew;
mod eprops;
mod props_ew;
mod sweep;
mod c16;
mod c14;
mod c04;
mod c19;
mod c15;
mod c03;
mod pool;
mod alloc;
mod rxsweep;

#[global_allocator]
static GLOBAL: alloc::Checking = alloc::Checking;

use explore::*;
use report::*;
use std::sync::atomic::Ordering;

pub struct PropRun {
    pub level: &'static str,
    pub scenarios: Vec<Scenario>,
    /// exhaustive sweeps that do not use choice points
    pub units: Vec<sweep::Unit>,
    /// re-runs one sweep case (scenario names starting with "case:")
    pub replay_case: Option<fn(&str) -> Vec<Violation>>,
    pub summary: Summary,
}

/// C20 says the counter never underflows: with overflow checks on, an underflow of the send buffer counter is a panic in packet_sender.rs.
fn c20_underflow(p: &str, ctx: &str) -> Violation {
    if (p.contains("subtract with overflow") || p.contains("total_size")) && p.contains("packet_sender.rs") { Violation { clause: "C20.underflow".into(), sig: "C20.underflow".into(), detail: format!("{}: the send buffer counter underflowed: {}", ctx, p) } }
    else { Violation { clause: "C20.other-panic".into(), sig: "C20.other-panic:not-a-verdict".into(), detail: String::new() } }
}

/// C06 bounds what the sender keeps outstanding (fragment-rounded bytes, packets in its transfer window) and what the receiver accounts for.
/// The build has overflow checks and debug assertions on, so when that accounting goes wrong the counters cannot be observed wrong: the
/// subtraction underflows, or the transfer-window slot of the oldest outstanding packet is found occupied when one packet too many is
/// taken in. Such a panic raised by the accounting code itself is the violation as this build shows it.
fn c06_accounting(p: &str, ctx: &str) -> Violation {
    let arith = p.contains("with overflow");
    if p.contains("packet_sender.rs") && (arith || p.contains("window[window_idx].is_none()")) { Violation { clause: "C06.sender-accounting".into(), sig: "C06.sender-accounting".into(), detail: format!("{}: the sender's accounting of outstanding packets / bytes failed its own consistency check: {}", ctx, p) } }
    else if p.contains("assembly_window") && arith { Violation { clause: "C06.receiver-accounting".into(), sig: "C06.receiver-accounting".into(), detail: format!("{}: the receiver's allocation counter over/underflowed: {}", ctx, p) } }
    else { Violation { clause: "C06.other-panic".into(), sig: "C06.other-panic:not-a-verdict".into(), detail: String::new() } }
}

/// Properties that promise that something happens (delivery, events, agreement, release of capacity): an execution in which the
/// library panics cannot keep that promise, and its trace is lost to the oracle, so the panic is reported under the property that
/// was being checked (C03 reports panics in their own right; C20 classifies counter underflows above).
const PROMISING: &[&str] = &["C02", "C04", "C05", "C07", "C08", "C09", "C10", "C11", "C12", "C17"];
static CURRENT_PROPERTY: std::sync::OnceLock<String> = std::sync::OnceLock::new();
fn aborted_by_panic(p: &str, ctx: &str) -> Violation {
    let id = CURRENT_PROPERTY.get().cloned().unwrap_or_default();
    let loc = p.rsplit(" @ ").next().unwrap_or("").to_string();
    let loc = loc.rsplit("/src/").next().unwrap_or(&loc).to_string();
    Violation { clause: format!("{}.aborted-by-panic", id), sig: format!("{}.aborted-by-panic:{}", id, loc), detail: format!("{}: the library panicked during this execution, so what {} promises cannot happen on it: {}", ctx, id, p) }
}

fn threads() -> usize {
    std::env::var("VERIF_THREADS").ok().and_then(|s| s.parse().ok()).unwrap_or_else(|| std::thread::available_parallelism().map(|n| n.get()).unwrap_or(8)).max(1)
}

fn start_watchdog(ex: &Explorer, property: String) {
    let watches = ex.watches.clone();
    let t0 = ex.t0;
    std::thread::spawn(move || {
        loop {
            std::thread::sleep(std::time::Duration::from_millis(500));
            let now = t0.elapsed().as_millis() as u64;
            for w in watches.iter() {
                let s = w.start_ms.load(Ordering::SeqCst);
                let limit = if w.item.lock().unwrap().as_ref().map_or(false, |(n, _)| n.starts_with("sweep unit")) { 300_000 } else { 30_000 };
                if s != 0 && now > s + limit {
                    let item = w.item.lock().unwrap().clone();
                    if let Some((scenario, prefix)) = item {
                        let f = Found { scenario: scenario.clone(), choices: prefix, violation: Violation { clause: "hang".into(), sig: "hang".into(), detail: "an execution did not finish within 30 s of wall time, or a sweep unit within 300 s (executions normally take milliseconds, units seconds): an uflow call does not return".into() }, deviations: 0 };
                        let path = write_replay(&property, &f);
                        if property == "C03" {
                            println!("VIOLATION property=C03 replay={}", path);
                            println!("    clause=hang scenario={}", scenario);
                            std::process::exit(1);
                        } else {
                            eprintln!("machinery: execution hung (wall-clock watchdog); hangs are C03's verdict. replay={}", path);
                            std::process::exit(2);
                        }
                    }
                }
            }
        }
    });
}

fn run_check(property: &str, tier: &str) -> i32 {
    let t0 = std::time::Instant::now();
    let seed: u64 = std::env::var("VERIF_SEED").ok().and_then(|s| s.parse().ok()).unwrap_or(0);
    let pr = match props::build(property, tier) { Some(p) => p, None => { eprintln!("unknown property {}", property); return 2; } };
    let known = load_known(property);
    let ctx = CheckCtx { property: property.to_string(), tier: tier.to_string(), seed, level: pr.level, threads: threads(), known: known.clone(), t0 };
    let deadline: f64 = std::env::var("VERIF_DEADLINE_S").ok().and_then(|s| s.parse().ok()).unwrap_or(if tier == "quick" { 600.0 } else { 3600.0 });
    let mut ex = Explorer::new(ctx.threads, deadline, known_matcher(&known));
    ex.sample_every = 0;
    if property == "C03" { ex.panic_to_violation = Some(c03::panic_violation); }
    if property == "C20" { ex.panic_to_violation = Some(c20_underflow); }
    if property == "C06" { ex.panic_to_violation = Some(c06_accounting); }
    if PROMISING.contains(&property) { let _ = CURRENT_PROPERTY.set(property.to_string()); ex.panic_to_violation = Some(aborted_by_panic); }
    install_panic_hook();
    start_watchdog(&ex, property.to_string());
    let mut scs = pr.scenarios;
    let mut summary = pr.summary;
    #[allow(unused_mut)] let mut units = pr.units;
    // diagnostic aid (never set by the registered commands): restrict the run to the scenarios whose name contains a substring
    if let Ok(only) = std::env::var("VERIF_ONLY") { scs.retain(|s| s.name.contains(&only)); units.clear(); eprintln!("VERIF_ONLY={}: {} scenarios kept, sweep units dropped - a diagnostic run, not a check", only, scs.len()); summary.exhaustive = false; }
    // VERIF_SEED only permutes the order in which scenarios are visited; enumeration is complete either way
    if seed != 0 && scs.len() > 1 {
        let mut x = seed | 1;
        for i in (1..scs.len()).rev() { x ^= x << 13; x ^= x >> 7; x ^= x << 17; let j = (x % (i as u64 + 1)) as usize; scs.swap(i, j); }
    }
    // determinism self-test: the default execution of (up to 50) scenarios is run twice
    for sc in scs.iter().step_by((scs.len() / 50).max(1)) {
        let mut c1 = Chooser::new(vec![], vec![]); let r1 = run_guarded(&*sc.run, &mut c1);
        let mut c2 = Chooser::new(vec![], vec![]); let r2 = run_guarded(&*sc.run, &mut c2);
        // (two runs that differ while one of them violates the property are left to the exploration: state the library carries from one
        // execution into the next - a cache that outlives its connection, say - shows as a violation in the first run of a thread only)
        if (r1.outcome != r2.outcome || r1.states != r2.states || c1.taken != c2.taken || c1.arity != c2.arity || r1.panic != r2.panic) && r1.violations.is_empty() && r2.violations.is_empty() {
            eprintln!("machinery: uncontrolled nondeterminism: two default executions of scenario {} differ", sc.name);
            return 2;
        }
    }
    println!("[{}] {} scenarios, {} threads, tier {}", property, scs.len(), ctx.threads, tier);
    ex.explore_all(&scs);
    let n_units = units.len();
    if n_units > 0 { println!("[{}] {} sweep units", property, n_units); sweep::run_units(&ex, units); }
    summary.bounds["scenarios_total"] = serde_json::json!(scs.len());
    finish(&ctx, &ex, summary)
}

fn replay(path: &str) -> i32 {
    let txt = match std::fs::read_to_string(path) { Ok(t) => t, Err(e) => { eprintln!("cannot read {}: {}", path, e); return 2; } };
    let v: serde_json::Value = match serde_json::from_str(&txt) { Ok(v) => v, Err(e) => { eprintln!("cannot parse {}: {}", path, e); return 2; } };
    let property = v["property"].as_str().unwrap_or("").to_string();
    let scenario = v["scenario"].as_str().unwrap_or("").to_string();
    let choices: Vec<u8> = v["choices"].as_array().map(|a| a.iter().map(|x| x.as_u64().unwrap_or(0) as u8).collect()).unwrap_or_default();
    install_panic_hook();
    if scenario.starts_with("case:") {
        let pr = match props::build(&property, "quick") { Some(p) => p, None => return 2 };
        let f = match pr.replay_case { Some(f) => f, None => { eprintln!("property {} has no case replay", property); return 2; } };
        let v1 = f(&scenario); let v2 = f(&scenario);
        if v1.iter().map(|v| v.sig.clone()).collect::<Vec<_>>() != v2.iter().map(|v| v.sig.clone()).collect::<Vec<_>>() { eprintln!("machinery: replay is not deterministic"); return 2; }
        let known = load_known(&property); let is_known = known_matcher(&known); let mut code = 0;
        for v in v2.iter() {
            if is_known(v) { println!("KNOWN-FINDING: property={} sig={}", property, v.sig); } else { println!("VIOLATION property={} replay={}", property, path); code = 1; }
            println!("    clause={} sig={}", v.clause, v.sig); println!("    {}", v.detail);
        }
        if v2.is_empty() { println!("no violation on this tree"); }
        return code;
    }
    for tier in ["quick", "thorough"] {
        if let Some(pr) = props::build(&property, tier) {
            if let Some(sc) = pr.scenarios.iter().find(|s| s.name == scenario) {
                let mut c1 = Chooser::new(choices.clone(), vec![]); let r1 = run_guarded(&*sc.run, &mut c1);
                std::env::set_var("VERIF_TRACE", "1");
                let mut c2 = Chooser::new(choices.clone(), vec![]); let r2 = run_guarded(&*sc.run, &mut c2);
                if r1.outcome != r2.outcome || c1.taken != c2.taken || r1.panic != r2.panic || r1.violations.iter().map(|v| v.sig.clone()).collect::<Vec<_>>() != r2.violations.iter().map(|v| v.sig.clone()).collect::<Vec<_>>() {
                    eprintln!("machinery: replay is not deterministic"); return 2;
                }
                if let Some(d) = c1.diverged { eprintln!("machinery: replay diverged: {}", d); return 2; }
                println!("replayed scenario {} with choices {:?} twice, identical observations", scenario, choices);
                if let Some(p) = r2.panic { println!("PANIC inside uflow: {}", p); }
                let known = load_known(&property);
                let is_known = known_matcher(&known);
                let mut code = 0;
                for v in r2.violations.iter() {
                    if is_known(v) { println!("KNOWN-FINDING: property={} sig={}", property, v.sig); println!("    {}", v.detail); }
                    else { println!("VIOLATION property={} replay={}", property, path); println!("    clause={} sig={}", v.clause, v.sig); println!("    {}", v.detail); code = 1; }
                }
                if r2.violations.is_empty() { println!("no violation on this tree"); }
                return code;
            }
        }
    }
    eprintln!("scenario not found: {}", scenario);
    2
}

fn main() {
    let args: Vec<String> = std::env::args().collect();
    if args.len() < 2 { eprintln!("usage: harness <ID> [quick|thorough] | --replay <file> | --list <ID> [tier]"); std::process::exit(2); }
    let code = if args[1] == "--replay" {
        match std::panic::catch_unwind(|| replay(&args[2])) { Ok(c) => c, Err(_) => { eprintln!("machinery error: panic outside a guarded subject call while replaying: {}", take_panic_info().unwrap_or_default()); 2 } }
    } else if args[1] == "--list" {
        let tier = tier_from_env(args.get(3).map(|s| s.as_str()));
        match props::build(&args[2], &tier) { Some(p) => { for s in p.scenarios.iter() { println!("{}", s.name); } 0 } None => 2 }
    } else {
        let tier = tier_from_env(args.get(2).map(|s| s.as_str()));
        run_check(&args[1], &tier)
    };
    std::process::exit(code);
}
