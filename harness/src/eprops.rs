//! Monitors (reference automata / ledgers) over endpoint-world traces, and scenario construction.

use crate::ew::*;
use crate::explore::*;
use crate::lw::viol;
use std::sync::Arc;
use uflow::verif::frame::*;
use uflow::SendMode;

// ------------------------------------------------------------------------------------------------
// C08: event automaton
// ------------------------------------------------------------------------------------------------

#[derive(Clone, Copy, PartialEq, Debug)]
enum St { Idle, Conn, Term }

pub fn oracle_c08(cfg: &EwCfg, tr: &EwTrace) -> Vec<Violation> {
    let mut out = Vec::new();
    let n = cfg.clients.len();
    // client side: one automaton per client object (generation)
    for i in 0..n {
        let mut st = St::Idle; let mut gen = 0usize; let mut log: Vec<String> = Vec::new();
        for e in tr.cev[i].iter() {
            if e.gen != gen { gen = e.gen; st = St::Idle; log.clear(); }
            log.push(format!("{}@r{}", ev_name(&e.ev), e.round));
            let bad = match (&e.ev, st) {
                (_, St::Term) => Some("event after the terminal event"),
                (Ev::Connect, St::Conn) => Some("second Connect"),
                (Ev::Receive(_), St::Idle) => Some("Receive without Connect"),
                (Ev::Disconnect, St::Idle) => Some("Disconnect without Connect"),
                _ => None,
            };
            if let Some(b) = bad { out.push(viol("C08.client", format!("C08.client:{}", b.replace(' ', "-")), format!("client {} (object #{}) event stream is not well-formed: {}: {:?}", i, gen, b, log))); break; }
            st = match e.ev { Ev::Connect => St::Conn, Ev::Receive(_) => St::Conn, Ev::Disconnect | Ev::Error(_) => St::Term };
        }
    }
    // server side: per address, connections follow one another; Server::drop ends a connection silently
    for i in 0..n {
        #[derive(Clone)] enum It { Ev(Ev), Drop, Syn }
        let mut items: Vec<(usize, u8, It)> = Vec::new(); // (round, order, item)
        for c in tr.calls.iter() { if let Act::SDrop(k) = c.act { if k == i { items.push((c.round, 0, It::Drop)); } } }
        for d in tr.delivered.iter() { let g = &tr.wire[d.dg]; if g.dst == saddr() && g.src == caddr(i) { if let Some(Frame::HandshakeSynFrame(_)) = g.frame { items.push((d.round, 1, It::Syn)); } } }
        for e in tr.sev[i].iter() { items.push((e.round, 2, It::Ev(e.ev.clone()))); }
        items.sort_by_key(|x| (x.0, x.1));
        // SYNs delivered and not yet answered by an event, by round of delivery. A terminal event clears the requests of earlier
        // rounds; a SYN delivered in the same round may have been handled after the frame that ended the connection.
        let mut st = St::Idle; let mut syns: Vec<usize> = Vec::new(); let mut log: Vec<String> = Vec::new();
        for (round, _, it) in items {
            match it {
                It::Drop => { log.push(format!("drop()@r{}", round)); if st == St::Conn { st = St::Term; syns.retain(|r| *r == round); } }
                It::Syn => { syns.push(round); }
                It::Ev(ev) => {
                    log.push(format!("{}@r{}", ev_name(&ev), round));
                    let bad = match (&ev, st) {
                        (Ev::Connect, St::Conn) => Some("new Connect before the previous connection's terminal event"),
                        (Ev::Receive(_), St::Idle) => Some("Receive without Connect"),
                        (Ev::Receive(_), St::Term) => Some("Receive after the terminal event"),
                        (Ev::Disconnect, St::Idle) => Some("Disconnect without Connect"),
                        (Ev::Disconnect, St::Term) => Some("Disconnect after the terminal event"),
                        (Ev::Error(_), St::Term) | (Ev::Error(_), St::Idle) if syns.is_empty() => Some("Error event with no connection or handshake it could belong to"),
                        _ => None,
                    };
                    if let Some(b) = bad { out.push(viol("C08.server", format!("C08.server:{}", b.replace(' ', "-")), format!("server events for client {} are not well-formed: {}: {:?}", i, b, log))); break; }
                    match ev {
                        Ev::Connect => { st = St::Conn; }
                        Ev::Receive(_) => {}
                        Ev::Disconnect => { st = St::Term; syns.retain(|r| *r == round); }
                        // a handshake error answers one connection request; the error that ends a connection ends all earlier requests
                        Ev::Error(_) => { if st == St::Conn { st = St::Term; syns.retain(|r| *r == round); } else if !syns.is_empty() { syns.remove(0); } }
                    }
                }
            }
        }
    }
    out
}

// ------------------------------------------------------------------------------------------------
// C07: handshake ledger
// ------------------------------------------------------------------------------------------------

pub fn oracle_c07(cfg: &EwCfg, tr: &EwTrace, expect_echo: bool) -> Vec<Violation> {
    let mut out = Vec::new();
    let n = cfg.clients.len();
    for i in 0..n {
        // life span of each client object (generation g = 1, 2, ...): from its Connect call to the next Connect / Forget call
        let mut spans: Vec<(usize, usize)> = Vec::new(); // (start round, end round exclusive)
        for c in tr.calls.iter() {
            match c.act {
                Act::Connect(k) if k == i => { if let Some(l) = spans.last_mut() { if l.1 == usize::MAX { l.1 = c.round; } } spans.push((c.round, usize::MAX)); }
                Act::Forget(k) if k == i => { if let Some(l) = spans.last_mut() { if l.1 == usize::MAX { l.1 = c.round; } } }
                _ => {}
            }
        }
        let span_of = |gen: usize| spans.get(gen.saturating_sub(1)).copied().unwrap_or((0, usize::MAX));
        // the nonce of a client object is in the SYN its Client::connect() call sent
        let connect_calls: Vec<usize> = tr.calls.iter().enumerate().filter(|(_, c)| c.act == Act::Connect(i)).map(|(k, _)| k).collect();
        let own_nonce = |gen: usize| { let ci = connect_calls.get(gen.saturating_sub(1)).copied(); tr.wire.iter().filter(|d| !d.injected && d.src == caddr(i) && d.call.is_some() && d.call == ci).find_map(|d| if let Some(Frame::HandshakeSynFrame(s)) = &d.frame { Some(s.nonce) } else { None }) };
        // client side
        for e in tr.cev[i].iter().filter(|e| e.ev == Ev::Connect) {
            let (a, _) = span_of(e.gen); let own = own_nonce(e.gen);
            let ok = tr.delivered.iter().filter(|x| x.round <= e.round && x.round >= a).any(|x| { let d = &tr.wire[x.dg]; d.dst == caddr(i) && d.src == saddr() && matches!(&d.frame, Some(Frame::HandshakeSynAckFrame(s)) if Some(s.nonce_ack) == own) });
            if !ok { out.push(viol("C07.client-connect", "C07.client-connect".into(), format!("client {} (object #{}) reported Connect in round {} but no SYN-ACK echoing its nonce {:x?} had been delivered to it", i, e.gen, e.round, own))); }
        }
        // server side: each Connect needs an ACK, delivered since the SYN-ACK of the pending connection was first
        // sent, that returns the nonce of that SYN-ACK
        for e in tr.sev[i].iter().filter(|e| e.ev == Ev::Connect) {
            let mut pend: Option<(u32, u32, usize)> = None;
            for d in tr.wire.iter().filter(|d| !d.injected && d.src == saddr() && d.dst == caddr(i) && d.sent_round <= e.round) {
                if let Some(Frame::HandshakeSynAckFrame(s)) = &d.frame { if pend.map_or(true, |p| (p.0, p.1) != (s.nonce_ack, s.nonce)) { pend = Some((s.nonce_ack, s.nonce, d.sent_round)); } }
            }
            let ok = match pend {
                Some((_, nonce, since)) => tr.delivered.iter().filter(|x| x.round <= e.round && x.round >= since).any(|x| { let d = &tr.wire[x.dg]; d.dst == saddr() && d.src == caddr(i) && matches!(&d.frame, Some(Frame::HandshakeAckFrame(a)) if a.nonce_ack == nonce) }),
                None => false,
            };
            if !ok { out.push(viol("C07.server-connect", "C07.server-connect".into(), format!("server reported Connect for client {} in round {} but no ACK returning the nonce of its pending SYN-ACK {:x?} had been delivered from that address since it was issued", i, e.round, pend.map(|p| p.1)))); }
        }
        // starting sequence numbers: the first data frame of each direction after a successful handshake
        for e in tr.cev[i].iter().filter(|e| e.ev == Ev::Connect) {
            let (a, b) = span_of(e.gen); let own = own_nonce(e.gen);
            let srv_nonce = tr.delivered.iter().filter(|x| x.round <= e.round && x.round >= a).find_map(|x| { let d = &tr.wire[x.dg]; if d.dst == caddr(i) && d.src == saddr() { if let Some(Frame::HandshakeSynAckFrame(s)) = &d.frame { if Some(s.nonce_ack) == own { return Some(s.nonce); } } } None });
            let first_c = tr.wire.iter().filter(|d| !d.injected && d.src == caddr(i) && d.sent_round >= e.round && d.sent_round < b).find_map(|d| if let Some(Frame::DataFrame(f)) = &d.frame { Some(f.clone()) } else { None });
            if let (Some(f), Some(o)) = (first_c, own) {
                if f.sequence_id != o || f.datagrams.first().map_or(false, |g| g.sequence_id != (o & 0xFFFFF)) {
                    out.push(viol("C07.seq", "C07.seq:client".into(), format!("client {}'s first data frame has frame id {:x} / packet id {:x?}, expected its handshake nonce {:x} / {:x}", i, f.sequence_id, f.datagrams.first().map(|g| g.sequence_id), o, o & 0xFFFFF)));
                }
            }
            // the server-side connection that belongs to this handshake: the first server Connect at or after the client's, inside this life span
            let s_conn = tr.sev[i].iter().find(|x| x.ev == Ev::Connect && x.round >= e.round && x.round < b).map(|x| x.round);
            // ... and its end (next server Connect for that address)
            if let (Some(sr), Some(sn)) = (s_conn, srv_nonce) {
                let s_end = tr.sev[i].iter().filter(|x| x.ev == Ev::Connect && x.round > sr).map(|x| x.round).next().unwrap_or(usize::MAX);
                let first_s = tr.wire.iter().filter(|d| !d.injected && d.src == saddr() && d.dst == caddr(i) && d.sent_round >= sr && d.sent_round < s_end.min(b)).find_map(|d| if let Some(Frame::DataFrame(f)) = &d.frame { Some(f.clone()) } else { None });
                if let Some(f) = first_s {
                    if f.sequence_id != sn || f.datagrams.first().map_or(false, |g| g.sequence_id != (sn & 0xFFFFF)) {
                        out.push(viol("C07.seq", "C07.seq:server".into(), format!("server's first data frame to client {} has frame id {:x} / packet id {:x?}, expected its handshake nonce {:x} / {:x}", i, f.sequence_id, f.datagrams.first().map(|g| g.sequence_id), sn, sn & 0xFFFFF)));
                    }
                }
            }
        }
        // configuration mismatches are refused with the matching error and never yield Connect
        let cc = &cfg.clients[i];
        let mismatch = cc.max_packet_size > cfg.server.max_receive_alloc || cfg.server.max_packet_size > cc.max_receive_alloc;
        if mismatch {
            if tr.cev[i].iter().any(|e| e.ev == Ev::Connect) || tr.sev[i].iter().any(|e| e.ev == Ev::Connect) {
                out.push(viol("C07.config", "C07.config:connect".into(), format!("client {} and the server have incompatible packet size / receive allocation limits but a Connect was reported", i)));
            }
            for e in tr.cev[i].iter() { if let Ev::Error(k) = e.ev { if k != 2 && k != 0 { out.push(viol("C07.config", "C07.config:wrong-error".into(), format!("client {} was refused with {} instead of Error(Config)", i, ev_name(&e.ev)))); } } }
        }
    }
    // no half-open connection: a client that reports Connect has a server that reports Connect for it as well, provided both objects
    // stay alive, nothing is blacked out, at most three datagrams between them are lost or held long, steps are <= 2 s apart and the
    // run goes on for 25 s after the client's Connect (the SYN-ACK retries that elicit a fresh ACK span 20 s)
    for i in 0..n {
        if tr.gens[i] != 1 { continue; }
        let forgot = tr.calls.iter().any(|c| matches!(c.act, Act::Forget(k) | Act::SDrop(k) if k == i));
        let bad = tr.wire.iter().filter(|d| !d.injected && (d.src == caddr(i) || d.dst == caddr(i)) && matches!(d.fate, DFate::Drop | DFate::HoldLong)).count();
        let injected = tr.wire.iter().any(|d| d.injected);
        let gap_all = tr.obs.windows(2).map(|w| w[1].t_ms - w[0].t_ms).max().unwrap_or(0);
        if let Some(e) = tr.cev[i].iter().find(|e| e.ev == Ev::Connect) {
            let t_end = tr.obs.last().map_or(0, |o| o.t_ms);
            if !forgot && !injected && tr.blackout.is_none() && bad <= 3 && gap_all <= 2000 && t_end >= e.t_ms + 25_000 && cfg.max_active >= cfg.clients.len() && cfg.max_total >= cfg.clients.len()
                && !tr.sev[i].iter().any(|x| x.ev == Ev::Connect) {
                out.push(viol("C07.half-open", "C07.half-open".into(), format!("client {} reported Connect in round {} (t={} ms) but the server never reported Connect for it in the {} ms that followed, although only {} datagrams were lost or held long and both endpoints stayed alive (server events for that address: {:?})", i, e.round, e.t_ms, t_end - e.t_ms, bad, tr.sev[i].iter().map(|x| ev_name(&x.ev)).collect::<Vec<_>>())));
            }
        }
    }
    // negotiated limits: once both ends report the connection, each sender's limits are the ones its peer is configured with
    // (receive allocation rounded up to whole fragments, rate = min(own max_send_rate, peer max_receive_rate))
    // limits travel in 32-bit handshake fields (values beyond are capped at 2^32-1); an own allocation limit too large to be rounded up stays below usize::MAX
    let ceil = |n: usize| n.saturating_add(1447) / 1448 * 1448;
    let w32 = |n: usize| n.min(u32::MAX as usize);
    for i in 0..n {
        if tr.gens[i] != 1 { continue; }
        if let Some(o) = tr.obs.iter().find(|o| o.c_active[i] && o.s_active[i] && o.c_probe[i].is_some() && o.s_probe[i].is_some()) {
            let (cp, sp) = (o.c_probe[i].as_ref().unwrap(), o.s_probe[i].as_ref().unwrap());
            let (cc, sc) = (&cfg.clients[i], &cfg.server);
            let checks: [(&str, u64, u64); 6] = [
                ("client send allocation limit vs. server max_receive_alloc", cp.tx_alloc_limit as u64, ceil(w32(sc.max_receive_alloc)) as u64),
                ("server send allocation limit vs. client max_receive_alloc", sp.tx_alloc_limit as u64, ceil(w32(cc.max_receive_alloc)) as u64),
                ("client receive allocation limit vs. its own max_receive_alloc", cp.rx_alloc_limit as u64, ceil(cc.max_receive_alloc) as u64),
                ("server receive allocation limit vs. its own max_receive_alloc", sp.rx_alloc_limit as u64, ceil(sc.max_receive_alloc) as u64),
                ("client send rate ceiling vs. min(client max_send_rate, server max_receive_rate)", cp.tx_rate_limit as u64, (w32(cc.max_send_rate) as u64).min(w32(sc.max_receive_rate) as u64)),
                ("server send rate ceiling vs. min(server max_send_rate, client max_receive_rate)", sp.tx_rate_limit as u64, (w32(sc.max_send_rate) as u64).min(w32(cc.max_receive_rate) as u64)),
            ];
            for (what, got, want) in checks {
                if got != want { out.push(viol("C07.limits", "C07.limits".into(), format!("connection {} (round {}): {}: {} in force, {} configured", i, o.round, what, got, want))); break; }
            }
        }
    }
    if expect_echo {
        // every Reliable packet sent by a client that stayed connected must have reached the server application and vice versa
        for i in 0..n {
            let interfered = tr.calls.iter().any(|c| matches!(c.act, Act::CDisconnect(k) | Act::CDisconnectNow(k) | Act::SDisconnect(k) | Act::SDisconnectNow(k) | Act::SDrop(k) | Act::Forget(k) if k == i))
                || tr.cev[i].iter().any(|e| matches!(e.ev, Ev::Error(_))) || tr.sev[i].iter().any(|e| matches!(e.ev, Ev::Error(_)));
            if interfered || tr.gens[i] != 1 { continue; }
            let mut cnt: std::collections::HashMap<(usize, u8), u32> = Default::default();
            for c in tr.calls.iter() {
                let (dir, chn, size, mode) = match c.act { Act::CSend(k, chn, m, s) if k == i => (0usize, chn, s, m), Act::SSend(k, chn, m, s) if k == i => (1, chn, s, m), _ => continue };
                let idx = { let e = cnt.entry((dir, chn)).or_insert(0); let v = *e; *e += 1; v };
                if mode != SendMode::Reliable { continue; }
                // sends before the connection exists are dropped by design on the server side; on the client they are queued
                let connected = if dir == 0 { true } else { tr.s_connect_round[i].map_or(false, |r| r < c.round) };
                if !connected { continue; }
                let p = ew_payload(dir, i, chn, idx, size);
                let got = if dir == 0 { tr.sev[i].iter().any(|e| matches!(&e.ev, Ev::Receive(d) if d[..] == p[..])) } else { tr.cev[i].iter().any(|e| matches!(&e.ev, Ev::Receive(d) if d[..] == p[..])) };
                if !got { out.push(viol("C07.echo", "C07.echo".into(), format!("after a successful handshake the Reliable packet #{} ({} B, {}) of connection {} never arrived although nothing interfered with the established connection: the ends do not agree on their starting numbers or limits", idx, size, if dir == 0 { "client->server" } else { "server->client" }, i))); }
            }
        }
    }
    out
}

/// User-visible form of C02/C11: on a network whose faults never impose a silence as long as the
/// active time-out, an established connection survives (no Error event on either side) and every
/// Reliable packet submitted on it is delivered by the end of the run.
pub fn oracle_survive(cfg: &EwCfg, tr: &EwTrace, clause: &str) -> Vec<Violation> {
    let mut out = Vec::new();
    let only_while_undelivered = clause.starts_with("C02");
    for i in 0..cfg.clients.len() {
        let interfered = tr.calls.iter().any(|c| matches!(c.act, Act::CDisconnect(k) | Act::CDisconnectNow(k) | Act::SDisconnect(k) | Act::SDisconnectNow(k) | Act::SDrop(k) | Act::Forget(k) if k == i));
        if interfered || tr.gens[i] != 1 { continue; }
        // Reliable packets and when they were delivered
        let mut cnt: std::collections::HashMap<(usize, u8), u32> = Default::default();
        let mut undelivered_at_end: Vec<String> = Vec::new();
        let mut last_delivery_round = 0usize; let mut all_delivered = true;
        for c in tr.calls.iter() {
            let (dir, chn, size, mode) = match c.act { Act::CSend(k, chn, m, s) if k == i => (0usize, chn, s, m), Act::SSend(k, chn, m, s) if k == i => (1, chn, s, m), _ => continue };
            let idx = { let e = cnt.entry((dir, chn)).or_insert(0); let v = *e; *e += 1; v };
            if mode != SendMode::Reliable { continue; }
            if dir == 1 && !tr.s_connect_round[i].map_or(false, |r| r < c.round) { continue; }
            let p = ew_payload(dir, i, chn, idx, size);
            let evs = if dir == 0 { &tr.sev[i] } else { &tr.cev[i] };
            let hits: Vec<usize> = evs.iter().filter(|e| matches!(&e.ev, Ev::Receive(d) if d[..] == p[..])).map(|e| e.round).collect();
            if hits.len() != 1 { all_delivered = false; undelivered_at_end.push(format!("ch{} #{} ({} B, {}) delivered {} times", chn, idx, size, if dir == 0 { "client->server" } else { "server->client" }, hits.len())); }
            else { last_delivery_round = last_delivery_round.max(hits[0]); }
        }
        let t_cfg = cfg.clients[i].active_timeout_ms.min(cfg.server.active_timeout_ms);
        let mut error_seen = false;
        let mut sides = vec![("client", &tr.cev[i], false), ("server", &tr.sev[i], true)];
        // the earlier of the two Error events is the one to explain (the later one follows from the connection's death)
        sides.sort_by_key(|s| s.1.iter().find(|e| matches!(e.ev, Ev::Error(_))).map_or(u64::MAX, |e| e.t_ms));
        for (who, evs, peer_is_client) in sides {
            if let Some(e) = evs.iter().find(|e| matches!(e.ev, Ev::Error(_))) {
                if error_seen { continue; }
                error_seen = true;
                if only_while_undelivered && all_delivered && e.round > last_delivery_round { continue; }
                // Why was the peer silent? Look at the peer's sender state over the silent period.
                let probes: Vec<&uflow::verif::Probe> = tr.obs.iter().filter(|o| o.t_ms + t_cfg >= e.t_ms && o.round < e.round).filter_map(|o| if peer_is_client { o.c_probe[i].as_ref() } else { o.s_probe[i].as_ref() }).collect();
                // (the first tenth of the period is left out: right after its last transmission the peer still waits for that frame's acknowledgement)
                let idle = !probes.is_empty() && probes[probes.len() / 10..].iter().all(|p| p.pending_len == 0 && p.resend_len == 0 && p.send_queue_len == 0);
                // the RTO in force during the second half of the silent period decides whether a keepalive was still due in time
                let rto_min = probes[probes.len() / 2..].iter().map(|p| p.rto_ms.unwrap_or(0)).min().unwrap_or(0);
                if crate::lwprops::verbose() { for p in probes.iter().step_by(20) { println!("   peer probe: rate {} rto {:?} credit {} pending {} resend {} queue {}", p.send_rate, p.rto_ms, p.flush_alloc, p.pending_len, p.resend_len, p.send_queue_len); } }
                let credit_neg = !probes.is_empty() && probes.iter().filter(|p| p.flush_alloc < 0).count() * 10 >= probes.len() * 9;
                let rate_max = probes.iter().map(|p| p.send_rate).fold(0.0, f64::max);
                let cause = if idle && rto_min + 2000 >= t_cfg { "peer-idle-and-its-keepalive-throttled-by-an-rto-above-the-timeout" }
                            else if credit_neg && rate_max * (t_cfg as f64 / 1000.0) < 1472.0 * 1.5 { "peer-output-blocked-by-negative-credit-at-a-rate-below-one-frame-per-timeout" }
                            else { "unexplained" };
                out.push(viol(clause, format!("{}:error-event:{}", clause, cause), format!("{} {} reported {} at t={} ms although the faults of this run never silence the link for as long as the active time-out ({} ms); last deviation in round {}; silent peer during that period: idle {}, min RTO {} ms, credit negative {}, max rate {} B/s", who, i, ev_name(&e.ev), e.t_ms, t_cfg, tr.last_dev_round, idle, rto_min, credit_neg, rate_max)));
            }
        }
        if !error_seen && !undelivered_at_end.is_empty() {
            out.push(viol(clause, format!("{}:undelivered", clause), format!("connection {}: Reliable packets not delivered exactly once by the end of the run (t={} ms): {:?}; last deviation in round {}", i, tr.obs.last().map_or(0, |o| o.t_ms), undelivered_at_end, tr.last_dev_round)));
        }
    }
    out
}

/// Differential clause for forged handshake frames: events and API-visible state per round must be
/// identical to the run without the forgery.
pub fn diff_traces(base: &EwTrace, tr: &EwTrace, what: &str) -> Vec<Violation> {
    let mut out = Vec::new();
    let evs = |t: &EwTrace| -> Vec<String> { let mut v = Vec::new(); for (i, l) in t.cev.iter().enumerate() { for e in l { v.push(format!("r{} C{} {}", e.round, i, ev_name(&e.ev))); } } for (i, l) in t.sev.iter().enumerate() { for e in l { v.push(format!("r{} S{} {}", e.round, i, ev_name(&e.ev))); } } v.sort(); v };
    let (a, b) = (evs(base), evs(tr));
    if a != b {
        let diff: Vec<&String> = b.iter().filter(|x| !a.contains(x)).chain(a.iter().filter(|x| !b.contains(x))).take(6).collect();
        out.push(viol("C07.forged", "C07.forged:events".into(), format!("{} changed the event streams; differing events: {:?}", what, diff)));
        return out;
    }
    for (oa, ob) in base.obs.iter().zip(tr.obs.iter()) {
        if oa.c_active != ob.c_active || oa.s_active != ob.s_active || oa.s_known != ob.s_known || oa.counts != ob.counts {
            out.push(viol("C07.forged", "C07.forged:state".into(), format!("{} changed API-visible connection state in round {}: is_active client {:?}->{:?}, server {:?}->{:?}, tracked {:?}->{:?}", what, oa.round, oa.c_active, ob.c_active, oa.s_active, ob.s_active, oa.counts, ob.counts)));
            break;
        }
    }
    out
}

// ------------------------------------------------------------------------------------------------
// C17: limit ledger
// ------------------------------------------------------------------------------------------------

pub fn oracle_c17(cfg: &EwCfg, tr: &EwTrace, expect_readmit: bool) -> Vec<Violation> {
    let mut out = Vec::new();
    let n = cfg.clients.len();
    // established connections according to the server's own event stream
    // A connection the server application has asked to close stays established while it flushes and is closing afterwards
    // (no event marks that moment; the terminal event comes with the peer's acknowledgement or the time-out): from the call
    // on it is counted only while RemoteClient::is_active() still reports it.
    let mut est = vec![false; n]; let mut closing_called = vec![false; n];
    for r in 0..tr.rounds {
        for c in tr.calls.iter().filter(|c| c.round == r) { match c.act { Act::SDrop(k) => { est[k] = false; } Act::SDisconnect(k) | Act::SDisconnectNow(k) => { closing_called[k] = true; } _ => {} } }
        for i in 0..n { for e in tr.sev[i].iter().filter(|e| e.round == r) { match e.ev { Ev::Connect => { est[i] = true; closing_called[i] = false; } Ev::Disconnect | Ev::Error(_) => est[i] = false, _ => {} } } }
        let active = (0..n).filter(|&i| est[i] && !(closing_called[i] && !tr.obs[r].s_active[i])).count();
        if active > cfg.max_active {
            out.push(viol("C17.active", "C17.active".into(), format!("round {}: the server has {} established connections (Connect reported, no terminal event yet) but max_active_connections is {}", r, active, cfg.max_active)));
            break;
        }
        let o = &tr.obs[r];
        if o.counts.0 > cfg.max_total {
            out.push(viol("C17.total", "C17.total".into(), format!("round {}: the server tracks {} connections but max_total_connections is {}", r, o.counts.0, cfg.max_total)));
            break;
        }
        if o.counts.1 > cfg.max_active {
            out.push(viol("C17.active", "C17.active:internal".into(), format!("round {}: {} connections are active inside the server, limit {}", r, o.counts.1, cfg.max_active)));
            break;
        }
    }
    // a refused SYN is answered with ServerFull; a client that sees a handshake error sees ServerFull (configs are compatible here)
    for i in 0..n {
        let cc = &cfg.clients[i];
        if cc.max_packet_size > cfg.server.max_receive_alloc || cfg.server.max_packet_size > cc.max_receive_alloc { continue; }
        for e in tr.cev[i].iter() { if let Ev::Error(k) = e.ev { if k == 1 || k == 2 { out.push(viol("C17.refusal", "C17.refusal".into(), format!("client {} was refused with {} although only the connection limits stand in its way", i, ev_name(&e.ev)))); } } }
    }
    if expect_readmit {
        // after capacity has been freed and the closed time-out has passed, a late-coming client must be admitted: the script's last Connect act is that client
        if let Some(last) = tr.calls.iter().filter(|c| matches!(c.act, Act::Connect(_))).last() {
            if let Act::Connect(k) = last.act {
                let g = tr.gens[k];
                if !tr.cev[k].iter().any(|e| e.gen == g && e.ev == Ev::Connect) {
                    out.push(viol("C17.readmit", "C17.readmit".into(), format!("client {} connected in round {} after earlier connections had ended, but was not admitted (events {:?})", k, last.round, tr.cev[k].iter().filter(|e| e.gen == g).map(|e| ev_name(&e.ev)).collect::<Vec<_>>())));
                }
            }
        }
    }
    out
}

// ------------------------------------------------------------------------------------------------
// C18: byte ledger per unverified address
// ------------------------------------------------------------------------------------------------

pub fn oracle_c18(_cfg: &EwCfg, tr: &EwTrace, n_raw: usize) -> Vec<Violation> {
    let mut out = Vec::new();
    for r in 0..n_raw {
        let a = raddr(r);
        let mut rx = 0usize; let mut tx = 0usize; let mut verified = false;
        // chronological: injected datagrams are delivered in their round; replies appear with sent_round
        let mut items: Vec<(usize, u8, usize)> = Vec::new();
        for (k, d) in tr.wire.iter().enumerate() { if d.src == a && d.dst == saddr() { items.push((d.round, 0, k)); } if d.src == saddr() && d.dst == a { items.push((d.sent_round, 1, k)); } }
        items.sort();
        let mut issued: Vec<u32> = Vec::new();
        let mut last_in: Option<usize> = None;
        for (_, dir, k) in items {
            let d = &tr.wire[k];
            if dir == 0 {
                rx += d.bytes.len(); last_in = Some(k);
                if let Some(Frame::HandshakeAckFrame(ack)) = &d.frame { if issued.contains(&ack.nonce_ack) { verified = true; } }
            } else {
                if verified { continue; }
                if let Some(Frame::HandshakeSynAckFrame(s)) = &d.frame { issued.push(s.nonce); }
                tx += d.bytes.len();
                if tx >= rx {
                    out.push(viol("C18.amplify", "C18.amplify".into(), format!("the server has sent {} bytes to the unverified address {} but received only {} from it (last reply: {} in round {})", tx, a, rx, frame_kind(&d.frame, &d.bytes), d.sent_round)));
                    break;
                }
                // undersized connection requests must be ignored altogether
                if let Some(li) = last_in { let l = &tr.wire[li]; if l.bytes.first() == Some(&0) && l.bytes.len() < 1472 && rx == l.bytes.len() {
                    out.push(viol("C18.undersized", "C18.undersized".into(), format!("the server replied ({}) to an undersized connection request of {} bytes", frame_kind(&d.frame, &d.bytes), l.bytes.len())));
                    break;
                } }
            }
        }
    }
    out
}

// ------------------------------------------------------------------------------------------------
// C13 at the endpoints: the ceiling a Client / RemoteClient really works with is negotiated in the handshake
// ------------------------------------------------------------------------------------------------

/// Every pair of emission instants of the data / ack / sync datagrams of a connection (handshake and disconnect frames belong to no
/// established connection and are not counted) against min(own max_send_rate, peer max_receive_rate) * (dt + RTT estimate) + 1472.
pub fn oracle_c13_ew(cfg: &EwCfg, tr: &EwTrace) -> Vec<Violation> {
    let mut out = Vec::new();
    for i in 0..cfg.clients.len() {
        for dir in 0..2usize {
            let c = if dir == 0 { cfg.clients[i].max_send_rate.min(cfg.server.max_receive_rate) } else { cfg.server.max_send_rate.min(cfg.clients[i].max_receive_rate) } as f64;
            // the property speaks about ceilings of at least one frame per second
            if c < 1472.0 { continue; }
            let (src, dst) = if dir == 0 { (caddr(i), saddr()) } else { (saddr(), caddr(i)) };
            let ems: Vec<&Dgram> = tr.wire.iter().filter(|d| !d.injected && d.src == src && d.dst == dst && matches!(d.frame, Some(Frame::DataFrame(_)) | Some(Frame::AckFrame(_)) | Some(Frame::SyncFrame(_)))).collect();
            if ems.is_empty() { continue; }
            let rtt_at = |round: usize| -> f64 { tr.obs.iter().filter(|o| o.round <= round).last().and_then(|o| if dir == 0 { o.c_rtt.get(i).copied().flatten() } else { o.s_rtt.get(i).copied().flatten() }).unwrap_or(0.0) };
            // a datagram is collected from the wire at the start of the round after the step that sent it: its emission time is that step's
            let t_sent = |d: &Dgram| -> u64 { tr.obs.iter().find(|o| o.round == d.sent_round).map_or(d.t_ms, |o| o.t_ms) };
            let rtts: Vec<f64> = ems.iter().map(|d| rtt_at(d.sent_round).max(rtt_at(d.sent_round.saturating_sub(1)))).collect();
            'outer: for a in 0..ems.len() {
                let mut bytes = 0usize; let mut rtt_max = 0.0f64;
                for b in a..ems.len() {
                    bytes += ems[b].bytes.len(); if rtts[b] > rtt_max { rtt_max = rtts[b]; }
                    let dt = (t_sent(ems[b]) - t_sent(ems[a])) as f64 / 1000.0;
                    let bound = c * (dt + rtt_max) + 1472.0 + 1.0;
                    if bytes as f64 > bound {
                        out.push(viol("C13.interval", format!("C13.interval:endpoint:{}", if dir == 0 { "client" } else { "server" }), format!("{} {} put {} bytes of data / ack / sync frames on the wire between t={} ms and t={} ms; bound min(own max_send_rate, peer max_receive_rate) * (dt + RTT) + 1472 = {} * ({:.3} + {:.3}) + 1472 = {:.0}", if dir == 0 { "client" } else { "server towards client" }, i, bytes, t_sent(ems[a]), t_sent(ems[b]), c, dt, rtt_max, bound)));
                        break 'outer;
                    }
                }
            }
        }
    }
    out
}

// ------------------------------------------------------------------------------------------------
// C12 at the endpoints: Unreliable / TimeSensitive packets submitted through Client::send / RemoteClient::send
// ------------------------------------------------------------------------------------------------

/// Single-fragment Unreliable and TimeSensitive packets are found on the wire by their payload: at most one datagram ever carries one,
/// and a TimeSensitive one is first carried by a datagram sent no later than the step of the round in which send() was called (a client
/// that was still connecting then keeps it queued; by the time the handshake completes at least one step() has passed).
pub fn oracle_c12_ew(cfg: &EwCfg, tr: &EwTrace) -> Vec<Violation> {
    let mut out = Vec::new();
    let mut cnt: std::collections::HashMap<(usize, usize, u8), u32> = Default::default();
    for c in tr.calls.iter() {
        let (dir, i, chn, mode, size) = match c.act { Act::CSend(i, chn, m, s) => (0usize, i, chn, m, s), Act::SSend(i, chn, m, s) => (1, i, chn, m, s), _ => continue };
        let idx = { let e = cnt.entry((dir, i, chn)).or_insert(0); let v = *e; *e += 1; v };
        if !(mode == SendMode::Unreliable || mode == SendMode::TimeSensitive) || size < 16 || size > 1400 || i >= cfg.clients.len() { continue; }
        if dir == 1 && !tr.s_connect_round[i].map_or(false, |r| r < c.round) { continue; }
        let p = ew_payload(dir, i, chn, idx, size);
        let src = if dir == 0 { caddr(i) } else { saddr() };
        let carriers: Vec<&Dgram> = tr.wire.iter().filter(|d| !d.injected && d.src == src && (dir == 0 || d.dst == caddr(i))).filter(|d| matches!(&d.frame, Some(Frame::DataFrame(df)) if df.datagrams.iter().any(|g| g.data[..] == p[..]))).collect();
        // a datagram duplicated or replayed by the network appears once in the list of datagrams sent
        if carriers.len() > 1 {
            out.push(viol("C12.once", format!("C12.once:endpoint:{}", if mode == SendMode::Unreliable { "U" } else { "T" }), format!("{:?} packet #{} of channel {} ({} B, {}) was transmitted {} times (rounds {:?})", mode, idx, chn, size, if dir == 0 { "client -> server" } else { "server -> client" }, carriers.len(), carriers.iter().map(|d| d.sent_round).collect::<Vec<_>>())));
        }
        if mode == SendMode::TimeSensitive {
            if let Some(first) = carriers.iter().map(|d| d.sent_round).min() {
                if first > c.round {
                    out.push(viol("C12.ts-late", "C12.ts-late:endpoint".into(), format!("TimeSensitive packet #{} of channel {} ({} B, {}) was handed to send() in round {} and first transmitted in round {}, after the step() that followed its send()", idx, chn, size, if dir == 0 { "client -> server" } else { "server -> client" }, c.round, first)));
                }
            }
        }
    }
    out
}

// ------------------------------------------------------------------------------------------------
// C10: timeouts
// ------------------------------------------------------------------------------------------------

/// Reference model of the 10-resends-2-s-apart retry timers (handshake SYN, SYN-ACK, disconnect).
struct Retry { next: u64, remaining: u32 }

/// wire[wi] is a disconnect request sent by a client in the same step directly behind a handshake ACK (the closing client's answer to a repeated SYN-ACK)
fn reack_copy(tr: &EwTrace, wi: usize) -> bool {
    let d = &tr.wire[wi];
    if !matches!(d.frame, Some(Frame::DisconnectFrame(_))) || wi == 0 { return false; }
    let p = &tr.wire[wi - 1];
    if !(!p.injected && p.src == d.src && p.dst == d.dst && p.sent_round == d.sent_round && matches!(p.frame, Some(Frame::HandshakeAckFrame(_)))) { return false; }
    // only a client that is already closing repeats its request there: an earlier transmission of the request by the same Client object
    let since = client_index(&d.src).and_then(|k| tr.calls.iter().filter(|c| matches!(c.act, Act::Connect(j) if j == k) && c.round <= d.sent_round).map(|c| c.round).max()).unwrap_or(0);
    tr.wire[..wi - 1].iter().any(|e| !e.injected && e.src == d.src && e.dst == d.dst && e.sent_round >= since && matches!(e.frame, Some(Frame::DisconnectFrame(_))))
}

pub fn oracle_c10(cfg: &EwCfg, tr: &EwTrace) -> Vec<Violation> {
    let mut out = Vec::new();
    let n = cfg.clients.len();
    // retries are 2 s apart: two transmissions of the same SYN, SYN-ACK or disconnect request (identical bytes, same endpoints; every
    // wire entry is a transmission by the endpoint - network duplicates do not add entries) by the same connection attempt are never
    // closer than that, however late a step comes
    {
        let mut last: std::collections::HashMap<(std::net::SocketAddr, std::net::SocketAddr, Vec<u8>), (u64, usize)> = Default::default();
        let connect_rounds: Vec<(usize, usize)> = tr.calls.iter().filter_map(|c| if let Act::Connect(k) = c.act { Some((k, c.round)) } else { None }).collect();
        for (wi, d) in tr.wire.iter().enumerate().filter(|(_, d)| !d.injected) {
            if !matches!(d.frame, Some(Frame::HandshakeSynFrame(_)) | Some(Frame::HandshakeSynAckFrame(_)) | Some(Frame::DisconnectFrame(_))) { continue; }
            // a disconnect request repeated right behind the re-acknowledgement of a SYN-ACK answers that SYN-ACK (the server has only now
            // learnt of the connection); it is not a retry of the timer
            if reack_copy(tr, wi) { continue; }
            let t_sent = tr.obs.get(d.sent_round).map_or(d.t_ms, |o| o.t_ms);
            let key = (d.src, d.dst, d.bytes.clone());
            if let Some((prev, prev_round)) = last.get(&key).copied() {
                // a new Client object at that address in between starts a new attempt
                let ci = client_index(&d.src).or_else(|| client_index(&d.dst));
                let renewed = ci.map_or(false, |k| connect_rounds.iter().any(|(kk, r)| *kk == k && *r > prev_round && *r <= d.sent_round));
                if !renewed && d.by_step && t_sent - prev < 2000 {
                    out.push(viol("C10.retry-spacing", "C10.retry-spacing".into(), format!("{} -> {}: {} transmitted again {} ms after its previous transmission (t={} ms and t={} ms); retries are 2 s apart", d.src.port(), d.dst.port(), frame_kind(&d.frame, &d.bytes), t_sent - prev, prev, t_sent)));
                    break;
                }
            }
            last.insert(key, (t_sent, d.sent_round));
        }
    }
    let is_conn_frame = |f: &Option<Frame>| matches!(f, Some(Frame::DataFrame(_)) | Some(Frame::AckFrame(_)) | Some(Frame::SyncFrame(_)));
    for i in 0..n {
        let t_cfg = cfg.clients[i].active_timeout_ms;
        // ---------------- client side, per client object
        let gens = tr.gens[i];
        for g in 1..=gens {
            let start = match tr.calls.iter().find(|c| c.act == Act::Connect(i) && c.gen + 1 == g) { Some(c) => c, None => continue };
            let end_round = tr.calls.iter().find(|c| (c.act == Act::Connect(i) || c.act == Act::Forget(i)) && c.gen == g && c.round >= start.round && !(c.round == start.round && c.act == Act::Connect(i) && c.gen + 1 == g)).map(|c| c.round).unwrap_or(usize::MAX);
            // handshake retry timer
            let mut hs = Some(Retry { next: start.t_ms + 2000, remaining: 10 });
            let mut active_since: Option<u64> = None; let mut last_heard: u64 = 0; let mut closing: Option<Retry> = None; let mut done = false;
            let mut disc_called = false;
            // a step processes everything that arrived since the previous step of this endpoint (it may have skipped rounds)
            let mut prev_step: Option<usize> = None;
            for o in tr.obs.iter().filter(|o| o.round >= start.round && o.round < end_round) {
                if done { break; }
                if !o.c_stepped[i] { continue; }
                let r = o.round; let t = o.t_ms;
                let since = prev_step.map_or(0, |p| p + 1); prev_step = Some(r);
                let evs: Vec<&EvRec> = tr.cev[i].iter().filter(|e| e.gen == g && e.round == r).collect();
                let timeout_now = evs.iter().any(|e| e.ev == Ev::Error(0));
                let sent_syn = tr.wire.iter().filter(|d| !d.injected && d.src == caddr(i) && d.by_step && d.sent_round == r && matches!(d.frame, Some(Frame::HandshakeSynFrame(_)))).count();
                let sent_disc = tr.wire.iter().enumerate().filter(|(wi, d)| !d.injected && d.src == caddr(i) && d.by_step && d.sent_round == r && matches!(d.frame, Some(Frame::DisconnectFrame(_))) && !reack_copy(tr, *wi)).count();
                let heard = tr.delivered.iter().any(|x| x.round >= since && x.round <= r && { let d = &tr.wire[x.dg]; d.dst == caddr(i) && d.src == saddr() && is_conn_frame(&d.frame) });
                for c in tr.calls.iter().filter(|c| c.round == r && c.gen == g) { if matches!(c.act, Act::CDisconnect(k) | Act::CDisconnectNow(k) if k == i) { disc_called = true; } }
                if let Some(h) = hs.as_mut() {
                    if evs.iter().any(|e| e.ev == Ev::Connect) { hs = None; active_since = Some(t); last_heard = t; }
                    else if evs.iter().any(|e| matches!(e.ev, Ev::Error(k) if k != 0)) { done = true; }
                    else if disc_called { done = true; }
                    else if t >= h.next {
                        if h.remaining > 0 {
                            if sent_syn != 1 || timeout_now { out.push(viol("C10.handshake", "C10.handshake:resend".into(), format!("client {}: at t={} ms the handshake timer was due (resends left {}), expected exactly one SYN resend, saw {} SYN(s){}", i, t, h.remaining, sent_syn, if timeout_now { " and Error(Timeout)" } else { "" }))); done = true; }
                            h.remaining -= 1; h.next = t + 2000;
                        } else {
                            if !timeout_now { out.push(viol("C10.handshake", "C10.handshake:late".into(), format!("client {}: the handshake retry budget (10 resends, 2 s apart) was used up at t={} ms but no Error(Timeout) was reported in that step", i, t))); }
                            done = true;
                        }
                    } else if timeout_now || sent_syn > 0 {
                        out.push(viol("C10.handshake", "C10.handshake:early".into(), format!("client {}: at t={} ms, before its handshake timer was due (next {} ms, resends left {}), the client {}", i, t, h.next, h.remaining, if timeout_now { "reported Error(Timeout)" } else { "resent its SYN" }))); done = true;
                    }
                    continue;
                }
                if let Some(cl) = closing.as_mut() {
                    if evs.iter().any(|e| e.ev == Ev::Disconnect) { done = true; continue; }
                    if t >= cl.next {
                        if cl.remaining > 0 {
                            if sent_disc != 1 || timeout_now { out.push(viol("C10.disconnect", "C10.disconnect:resend".into(), format!("client {}: at t={} ms the disconnect timer was due (resends left {}), expected one resend, saw {}{}", i, t, cl.remaining, sent_disc, if timeout_now { " and Error(Timeout)" } else { "" }))); done = true; }
                            cl.remaining -= 1; cl.next = t + 2000;
                        } else {
                            if !timeout_now { out.push(viol("C10.disconnect", "C10.disconnect:late".into(), format!("client {}: the disconnect retry budget was used up at t={} ms but no Error(Timeout) was reported", i, t))); }
                            done = true;
                        }
                    } else if timeout_now { out.push(viol("C10.disconnect", "C10.disconnect:early".into(), format!("client {}: Error(Timeout) at t={} ms while disconnecting, before the retry budget (next resend {} ms, {} left) was used up", i, t, cl.next, cl.remaining))); done = true; }
                    continue;
                }
                if active_since.is_some() {
                    if evs.iter().any(|e| e.ev == Ev::Disconnect) { done = true; continue; }
                    if heard { last_heard = t; }
                    let silent = t - last_heard;
                    if timeout_now {
                        if silent < t_cfg { out.push(viol("C10.active", "C10.active:early".into(), format!("client {}: Error(Timeout) at t={} ms although a frame from the server was processed {} ms earlier (active_timeout_ms {})", i, t, silent, t_cfg))); }
                        done = true; continue;
                    }
                    if silent >= t_cfg && !heard {
                        out.push(viol("C10.active", "C10.active:late".into(), format!("client {}: {} ms of silence at t={} ms (active_timeout_ms {}) but no Error(Timeout) in this step", i, silent, t, t_cfg))); done = true; continue;
                    }
                    if sent_disc > 0 { closing = Some(Retry { next: t + 2000, remaining: 10 }); }
                }
            }
        }
        // ---------------- server side for this address
        let ts_cfg = cfg.server.active_timeout_ms;
        let mut conn: Option<u64> = None; let mut last_heard = 0u64;
        let mut prev_step: Option<usize> = None;
        for o in tr.obs.iter() {
            if !o.s_stepped { continue; }
            let r = o.round; let t = o.t_ms;
            let since = prev_step.map_or(0, |p| p + 1); prev_step = Some(r);
            // drop and disconnect_now end the connection at once; a flushing disconnect() leaves it established (and subject to the active
            // time-out) until the disconnect request itself is transmitted
            for c in tr.calls.iter().filter(|c| c.round == r) { if matches!(c.act, Act::SDrop(k) | Act::SDisconnectNow(k) if k == i) { conn = None; } }
            if tr.wire.iter().any(|d| !d.injected && d.src == saddr() && d.dst == caddr(i) && d.sent_round == r && matches!(d.frame, Some(Frame::DisconnectFrame(_)))) { conn = None; }
            let heard = tr.delivered.iter().any(|x| x.round >= since && x.round <= r && { let d = &tr.wire[x.dg]; d.src == caddr(i) && d.dst == saddr() && is_conn_frame(&d.frame) });
            let was_conn = conn.is_some();
            let mut timeout_now = false; let mut ended = false;
            // events of this step in the order the server produced them
            for e in tr.sev[i].iter().filter(|e| e.round == r) {
                match e.ev {
                    Ev::Connect => { conn = Some(t); last_heard = t; }
                    Ev::Disconnect => { conn = None; ended = true; }
                    Ev::Error(0) => { if conn.is_some() { timeout_now = true; } }
                    _ => {}
                }
            }
            if !was_conn || ended { if timeout_now { conn = None; } continue; }
            if conn.is_none() { continue; }
            if heard { last_heard = t; }
            let silent = t - last_heard;
            if timeout_now {
                if silent < ts_cfg { out.push(viol("C10.active", "C10.active:early".into(), format!("server: Error(Timeout) for client {} at t={} ms although a frame from it was processed {} ms earlier (active_timeout_ms {})", i, t, silent, ts_cfg))); }
                conn = None; continue;
            }
            if silent >= ts_cfg && !heard {
                out.push(viol("C10.active", "C10.active:late".into(), format!("server: {} ms of silence from client {} at t={} ms (active_timeout_ms {}) but no Error(Timeout) in this step", silent, i, t, ts_cfg))); conn = None;
            }
        }
    }
    out
}

/// Keep-alive clause: idle established connections on a fault-free network never time out.
pub fn oracle_c10_keepalive(cfg: &EwCfg, tr: &EwTrace) -> Vec<Violation> {
    let mut out = Vec::new();
    let cadence = tr.obs.windows(2).map(|w| w[1].t_ms - w[0].t_ms).max().unwrap_or(0);
    for i in 0..cfg.clients.len() {
        for (who, evs) in [("client", &tr.cev[i]), ("server", &tr.sev[i])] {
            if let Some(e) = evs.iter().find(|e| e.ev == Ev::Error(0)) {
                // keep-alive frames are never sent more often than every 2 s (MIN_SYNC_TIMEOUT_MS), whatever interval is configured
                let t_min = cfg.clients[i].active_timeout_ms.min(cfg.server.active_timeout_ms);
                // D16: time-outs at or below the 2 s keep-alive floor (application loops of at most a second; slower loops are D32's business)
                // D32: flush() decides about a keep-alive with the clock of the previous step(), so an application that only calls step() sends one
                //      every second step at best; with steps further apart than half the time-out (but closer than the time-out) the peer gives up
                let sig = if cadence <= 1000 && t_min <= 2000 + 3 * cadence { "C10.keepalive:active-timeout-not-above-the-2s-keepalive-floor" }
                          else if cadence > 1000 && cadence < t_min && 2 * cadence >= t_min { "C10.keepalive:steps-further-apart-than-half-the-timeout-and-keepalive-decided-on-the-previous-steps-clock" }
                          else { "C10.keepalive" };
                out.push(viol("C10.keepalive", sig.into(), format!("{} {}: Error(Timeout) at t={} ms on a loss-free network with keepalive enabled (client keepalive {} ms / timeout {} ms, server keepalive {} ms / timeout {} ms, step cadence {} ms)", who, i, e.t_ms, cfg.clients[i].keepalive_interval_ms, cfg.clients[i].active_timeout_ms, cfg.server.keepalive_interval_ms, cfg.server.active_timeout_ms, cadence)));
            }
        }
    }
    out
}

// ------------------------------------------------------------------------------------------------
// C09: disconnect
// ------------------------------------------------------------------------------------------------

pub fn oracle_c09(cfg: &EwCfg, tr: &EwTrace) -> Vec<Violation> {
    let mut out = Vec::new();
    for i in 0..cfg.clients.len() {
        if tr.gens[i] != 1 { continue; }
        let c_disc = tr.calls.iter().find(|c| matches!(c.act, Act::CDisconnect(k) if k == i));
        let s_disc = tr.calls.iter().find(|c| matches!(c.act, Act::SDisconnect(k) if k == i));
        let c_any = tr.calls.iter().any(|c| matches!(c.act, Act::CDisconnect(k) | Act::CDisconnectNow(k) | Act::Forget(k) if k == i));
        let s_any = tr.calls.iter().any(|c| matches!(c.act, Act::SDisconnect(k) | Act::SDisconnectNow(k) | Act::SDrop(k) if k == i));
        // (a) flush clause
        for (dir, call, peer_called, peer_evs) in [(0usize, c_disc, s_any, &tr.sev[i]), (1usize, s_disc, c_any, &tr.cev[i])] {
            let call = match call { Some(c) => c, None => continue };
            if peer_called { continue; }
            // disconnect_now() by the same side (at any time) gives up the guarantee, as does dropping either object
            let own_now = tr.calls.iter().any(|c| if dir == 0 { matches!(c.act, Act::CDisconnectNow(k) | Act::Forget(k) | Act::SDrop(k) | Act::Connect(k) if k == i) && c.round > 0 } else { matches!(c.act, Act::SDisconnectNow(k) | Act::SDrop(k) | Act::Forget(k) if k == i) });
            if own_now { continue; }
            // the connection must have been established at the caller when disconnect() was called
            let established = if dir == 0 { tr.cev[i].iter().any(|e| e.ev == Ev::Connect && e.round < call.round) || tr.obs.get(call.round.saturating_sub(1)).map_or(false, |o| o.c_active[i]) } else { tr.obs.get(call.round.saturating_sub(1)).map_or(false, |o| o.s_active[i]) };
            if !established { continue; }
            let disc_ev = match peer_evs.iter().find(|e| e.ev == Ev::Disconnect) { Some(e) => e, None => continue };
            let mut cnt: std::collections::HashMap<u8, u32> = Default::default();
            for c in tr.calls.iter() {
                let (chn, size, mode) = match c.act { Act::CSend(k, chn, m, s) if k == i && dir == 0 => (chn, s, m), Act::SSend(k, chn, m, s) if k == i && dir == 1 => (chn, s, m), _ => continue };
                let idx = { let e = cnt.entry(chn).or_insert(0); let v = *e; *e += 1; v };
                if mode != SendMode::Reliable { continue; }
                if c.round > call.round || (c.round == call.round && tr.calls.iter().position(|x| std::ptr::eq(x, c)) > tr.calls.iter().position(|x| std::ptr::eq(x, call))) { continue; }
                if dir == 1 && !tr.s_connect_round[i].map_or(false, |r| r < c.round) { continue; }
                let p = ew_payload(dir, i, chn, idx, size);
                let pos_d = peer_evs.iter().position(|e| std::ptr::eq(e, disc_ev)).unwrap();
                let got = peer_evs[..pos_d].iter().any(|e| matches!(&e.ev, Ev::Receive(d) if d[..] == p[..]));
                if !got { out.push(viol("C09.flush", "C09.flush".into(), format!("{} called disconnect() in round {} after submitting Reliable packet ch{} #{} ({} B), but the peer saw Disconnect (round {}) without having received it", if dir == 0 { format!("client {}", i) } else { format!("server (for client {})", i) }, call.round, chn, idx, size, disc_ev.round))); }
            }
        }
        // (d) disconnect_now() on an established connection transmits its request at once ("immediately for disconnect_now()"), whatever was
        // asked of the connection before (a flushing disconnect() that is still waiting for acknowledgements included): unless the
        // connection ends within the next two rounds anyway, a disconnect request leaves the caller in the round of the call or the next two
        for c in tr.calls.iter() {
            let (side, k) = match c.act { Act::CDisconnectNow(k) if k == i => (0usize, k), Act::SDisconnectNow(k) if k == i => (1, k), _ => continue };
            let active_before = tr.obs.get(c.round.wrapping_sub(1)).map_or(false, |o| if side == 0 { o.c_active[k] } else { o.s_active[k] }) && c.round > 0;
            if !active_before { continue; }
            let evs = if side == 0 { &tr.cev[i] } else { &tr.sev[i] };
            let ended_soon = evs.iter().any(|e| matches!(e.ev, Ev::Disconnect | Ev::Error(_)) && e.round <= c.round + 2) || c.round + 3 >= tr.rounds;
            let gone = tr.calls.iter().any(|x| x.round <= c.round + 2 && (matches!(x.act, Act::Forget(j) if j == i && side == 0) || matches!(x.act, Act::SDrop(j) if j == i && side == 1)));
            if ended_soon || gone { continue; }
            let me = if side == 0 { caddr(i) } else { saddr() }; let peer = if side == 0 { saddr() } else { caddr(i) };
            let sent = tr.wire.iter().any(|d| !d.injected && d.src == me && d.dst == peer && matches!(d.frame, Some(Frame::DisconnectFrame(_))) && d.sent_round >= c.round.saturating_sub(1) && d.sent_round <= c.round + 2);
            let earlier = tr.wire.iter().any(|d| !d.injected && d.src == me && d.dst == peer && matches!(d.frame, Some(Frame::DisconnectFrame(_))) && d.sent_round < c.round);
            if !sent && !earlier {
                out.push(viol("C09.now", "C09.now:request-not-transmitted".into(), format!("{} {} called disconnect_now() in round {} on an established connection, but no disconnect request left it in that round or the two that followed (and the connection did not end by itself)", if side == 0 { "client" } else { "server towards client" }, i, c.round)));
            }
        }
        // (b) both ends terminate within the retry budget once a disconnect request is on the wire
        let first_disc = tr.wire.iter().filter(|d| !d.injected && (d.src == caddr(i) || d.dst == caddr(i)) && matches!(d.frame, Some(Frame::DisconnectFrame(_)))).map(|d| (d.sent_round, d.t_ms)).next();
        if let Some((r0, _)) = first_disc {
            let t0 = tr.obs[r0.min(tr.rounds - 1)].t_ms;
            let max_gap = tr.obs.windows(2).filter(|w| w[0].round >= r0).map(|w| w[1].t_ms - w[0].t_ms).max().unwrap_or(100);
            let budget = 22_000 + 12 * max_gap + 1000;
            let c_term = tr.cev[i].iter().find(|e| matches!(e.ev, Ev::Disconnect | Ev::Error(_))).map(|e| e.t_ms);
            let s_conn = tr.sev[i].iter().any(|e| e.ev == Ev::Connect);
            let s_term = tr.sev[i].iter().find(|e| matches!(e.ev, Ev::Disconnect | Ev::Error(_))).map(|e| e.t_ms);
            let s_dropped = tr.calls.iter().any(|c| matches!(c.act, Act::SDrop(k) if k == i));
            let c_forgot = tr.calls.iter().any(|c| matches!(c.act, Act::Forget(k) if k == i));
            let t_end = tr.obs.last().unwrap().t_ms;
            let c_conn = tr.cev[i].iter().any(|e| e.ev == Ev::Connect);
            if cfg.clients[i].active_timeout_ms <= 20_000 && cfg.server.active_timeout_ms <= 20_000 {
                if c_conn && !c_forgot && c_term.map_or(t_end > t0 + budget, |t| t > t0 + budget) {
                    out.push(viol("C09.budget", "C09.budget:client".into(), format!("client {}: a disconnect request was first transmitted at t={} ms but the client had no terminal event by t={} ms (got {:?})", i, t0, t0 + budget, c_term)));
                }
                if s_conn && !s_dropped && s_term.map_or(t_end > t0 + budget, |t| t > t0 + budget) {
                    out.push(viol("C09.budget", "C09.budget:server".into(), format!("server/client {}: a disconnect request was first transmitted at t={} ms but the server had no terminal event for it by t={} ms (got {:?})", i, t0, t0 + budget, s_term)));
                }
            }
            // (c) Error(Timeout) is the terminal event only if the peer has become unreachable: with both objects alive, no blackout,
            // steps at most 2 s apart, at most three datagrams between the two lost or held long, and the default 20 s time-outs, the
            // ten disconnect retries cannot all fail, so both ends must finish with Disconnect
            let bad = tr.wire.iter().filter(|d| !d.injected && (d.src == caddr(i) || d.dst == caddr(i)) && matches!(d.fate, DFate::Drop | DFate::HoldLong)).count();
            let gap_all = tr.obs.windows(2).map(|w| w[1].t_ms - w[0].t_ms).max().unwrap_or(0);
            let reconnects = tr.calls.iter().filter(|c| matches!(c.act, Act::Connect(k) if k == i)).count() > 1;
            if tr.blackout.is_none() && !s_dropped && !c_forgot && !reconnects && bad <= 3 && gap_all <= 2000 && cfg.clients[i].active_timeout_ms >= 20_000 && cfg.server.active_timeout_ms >= 20_000 && cfg.clients[i].keepalive_interval_ms <= 5000 && cfg.server.keepalive_interval_ms <= 5000 {
                for (who, evs) in [("client", &tr.cev[i]), ("server", &tr.sev[i])] {
                    // the connection's own terminal event: the first Disconnect / Error after its Connect (later events belong to
                    // later handshake attempts from the same address, e.g. a stale SYN arriving after the connection has ended)
                    let conn = evs.iter().position(|e| e.ev == Ev::Connect);
                    let term = conn.and_then(|c| evs[c..].iter().find(|e| matches!(e.ev, Ev::Disconnect | Ev::Error(_))));
                    if let Some(e) = term.filter(|e| e.ev == Ev::Error(0) && e.round >= r0) {
                        out.push(viol("C09.budget", format!("C09.spurious-timeout:{}", who), format!("{} {}: a disconnect request was first transmitted in round {}; only {} datagrams were lost or held long, steps were at most {} ms apart and both endpoints stayed alive, yet the {} ended with Error(Timeout) in round {} (t={} ms) instead of Disconnect", who, i, r0, bad, gap_all, who, e.round, e.t_ms)));
                    }
                }
            }
        }
    }
    out
}

// ------------------------------------------------------------------------------------------------
// C20 at the API of Client and RemoteClient: send_buffer_size() is 0 unless the connection is established,
// never exceeds the bytes handed to send() so far, and is 0 again once everything was delivered and the
// connection has been quiet for a while.
// ------------------------------------------------------------------------------------------------

pub fn oracle_c20_ew(cfg: &EwCfg, tr: &EwTrace) -> Vec<Violation> {
    let mut out = Vec::new();
    for i in 0..cfg.clients.len() {
        if tr.gens[i] != 1 { continue; }
        for dir in 0..2usize {
            let who = if dir == 0 { format!("client {}", i) } else { format!("server (for client {})", i) };
            let mut submitted = 0usize; let mut last_send_round = 0usize;
            let mut ci = 0usize;
            for o in tr.obs.iter() {
                while ci < tr.calls.len() && tr.calls[ci].round <= o.round {
                    match tr.calls[ci].act { Act::CSend(k, _, _, s) if k == i && dir == 0 => { submitted += s; last_send_round = tr.calls[ci].round; } Act::SSend(k, _, _, s) if k == i && dir == 1 => { submitted += s; last_send_round = tr.calls[ci].round; } _ => {} }
                    ci += 1;
                }
                let (sbs, active) = if dir == 0 { (o.c_sbs[i], o.c_active[i]) } else { (o.s_sbs[i], o.s_active[i]) };
                if !active && sbs != 0 { out.push(viol("C20.api", "C20.api:not-active".into(), format!("{}: send_buffer_size() = {} in round {} although the connection is not established", who, sbs, o.round))); break; }
                if sbs > submitted { out.push(viol("C20.api", "C20.api:high".into(), format!("{}: send_buffer_size() = {} in round {} but only {} bytes have been handed to send()", who, sbs, o.round, submitted))); break; }
            }
            // quiet end: the connection is still established on both sides, the last fault and the last send() lie at least 60 rounds
            // (>= 6 s) back, and every payload this side submitted has reached the peer application
            if let Some(o) = tr.obs.last() {
                let (sbs, active, peer_active) = if dir == 0 { (o.c_sbs[i], o.c_active[i], o.s_active[i]) } else { (o.s_sbs[i], o.s_active[i], o.c_active[i]) };
                let quiet_from = last_send_round.max(tr.last_dev_round) + 60;
                let disturbed = tr.blackout.is_some() || tr.calls.iter().any(|c| matches!(c.act, Act::CDisconnect(k) | Act::CDisconnectNow(k) | Act::SDisconnect(k) | Act::SDisconnectNow(k) | Act::SDrop(k) | Act::Forget(k) if k == i));
                let gap = tr.obs.windows(2).map(|w| w[1].t_ms - w[0].t_ms).min().unwrap_or(0);
                if active && peer_active && !disturbed && o.round >= quiet_from && gap >= 100 && sbs != 0 {
                    out.push(viol("C20.api", "C20.api:not-zero-when-quiet".into(), format!("{}: send_buffer_size() = {} in round {} although nothing was sent or lost for {} rounds", who, sbs, o.round, o.round - quiet_from + 60)));
                }
            }
        }
    }
    out
}

// ------------------------------------------------------------------------------------------------
// scenario construction
// ------------------------------------------------------------------------------------------------

pub const EO_C07: u32 = 1; pub const EO_C08: u32 = 2; pub const EO_C09: u32 = 4; pub const EO_C10: u32 = 8; pub const EO_C17: u32 = 16; pub const EO_C18: u32 = 32;
pub const EO_ECHO: u32 = 64; pub const EO_READMIT: u32 = 128; pub const EO_KEEPALIVE: u32 = 256; pub const EO_SURVIVE_C02: u32 = 512; pub const EO_SURVIVE_C11: u32 = 1024; pub const EO_C20: u32 = 2048; pub const EO_C12: u32 = 4096; pub const EO_C13: u32 = 8192;

#[derive(Clone)]
pub struct EwSpec { pub tag: String, pub cfg: EwCfg, pub script: Arc<Vec<EwOp>>, pub env: EwEnv, pub d: usize, pub oracles: u32, pub n_raw: usize }

pub const EW_WITNESSES: &[&str] = &["client Connect", "server Connect", "Disconnect event", "Error(Timeout)", "handshake error event", "SYN retransmitted", "SYN-ACK retransmitted", "disconnect request retransmitted", "duplicate datagram delivered", "stale datagram delivered (held >= 10 rounds)", "ServerFull refusal", "Receive event", "re-ACK of duplicate SYN-ACK"];

/// Names for a summary: 32 unused slots (link-world witnesses live there), then the endpoint-world witnesses.
pub fn ew_witness_names() -> Vec<&'static str> { let mut v = vec!["-"; 32]; v.extend_from_slice(EW_WITNESSES); v }
/// Link-world names followed by the endpoint-world names at bit 32 (for properties that run both worlds).
pub fn mixed_witness_names() -> Vec<&'static str> { let mut v = crate::lwprops::WITNESSES.to_vec(); while v.len() < 32 { v.push("-"); } v.extend_from_slice(EW_WITNESSES); v }

pub fn ew_witnesses(tr: &EwTrace) -> u64 {
    let mut w = 0u64;
    if tr.cev.iter().flatten().any(|e| e.ev == Ev::Connect) { w |= 1; }
    if tr.sev.iter().flatten().any(|e| e.ev == Ev::Connect) { w |= 2; }
    if tr.cev.iter().chain(tr.sev.iter()).flatten().any(|e| e.ev == Ev::Disconnect) { w |= 4; }
    if tr.cev.iter().chain(tr.sev.iter()).flatten().any(|e| e.ev == Ev::Error(0)) { w |= 8; }
    if tr.cev.iter().chain(tr.sev.iter()).flatten().any(|e| matches!(e.ev, Ev::Error(k) if k != 0)) { w |= 16; }
    let count = |f: &dyn Fn(&Dgram) -> bool| tr.wire.iter().filter(|d| !d.injected && f(d)).count();
    if count(&|d| matches!(d.frame, Some(Frame::HandshakeSynFrame(_))) && d.by_step) > 0 { w |= 32; }
    if count(&|d| matches!(d.frame, Some(Frame::HandshakeSynAckFrame(_)))) > tr.gens.iter().sum::<usize>().max(1) { w |= 64; }
    if count(&|d| matches!(d.frame, Some(Frame::DisconnectFrame(_)))) > 1 { w |= 128; }
    let mut seen = std::collections::HashSet::new();
    for x in tr.delivered.iter() { if !seen.insert(x.dg) { w |= 256; if x.round >= tr.wire[x.dg].round + 10 { w |= 512; } } }
    if tr.cev.iter().flatten().any(|e| e.ev == Ev::Error(3)) { w |= 1024; }
    if tr.cev.iter().chain(tr.sev.iter()).flatten().any(|e| matches!(e.ev, Ev::Receive(_))) { w |= 2048; }
    if count(&|d| matches!(d.frame, Some(Frame::HandshakeAckFrame(_)))) > tr.gens.iter().sum::<usize>().max(1) { w |= 4096; }
    w
}

pub fn eval_ew(spec: &EwSpec, tr: &EwTrace) -> Vec<Violation> {
    let mut v = Vec::new();
    let o = spec.oracles;
    if o & EO_C08 != 0 { v.extend(oracle_c08(&spec.cfg, tr)); }
    if o & EO_C07 != 0 { v.extend(oracle_c07(&spec.cfg, tr, o & EO_ECHO != 0)); }
    if o & EO_C09 != 0 { v.extend(oracle_c09(&spec.cfg, tr)); }
    if o & EO_C10 != 0 { v.extend(oracle_c10(&spec.cfg, tr)); }
    if o & EO_KEEPALIVE != 0 { v.extend(oracle_c10_keepalive(&spec.cfg, tr)); }
    if o & EO_C17 != 0 { v.extend(oracle_c17(&spec.cfg, tr, o & EO_READMIT != 0)); }
    if o & EO_C18 != 0 { v.extend(oracle_c18(&spec.cfg, tr, spec.n_raw)); }
    if o & EO_SURVIVE_C02 != 0 { v.extend(oracle_survive(&spec.cfg, tr, "C02.survive")); }
    if o & EO_SURVIVE_C11 != 0 { v.extend(oracle_survive(&spec.cfg, tr, "C11.survive")); }
    if o & EO_C20 != 0 { v.extend(oracle_c20_ew(&spec.cfg, tr)); }
    if o & EO_C12 != 0 { v.extend(oracle_c12_ew(&spec.cfg, tr)); }
    if o & EO_C13 != 0 { v.extend(oracle_c13_ew(&spec.cfg, tr)); }
    // one violation per signature
    let mut out: Vec<Violation> = Vec::new();
    for x in v { if !out.iter().any(|y| y.sig == x.sig) { out.push(x); } }
    out
}

pub fn ew_scenario(spec: EwSpec) -> Scenario {
    let name = format!("{}|{}|{}|{}|d{}", spec.tag, spec.cfg.name(), script_name(&spec.script), spec.env.name(), spec.d);
    let d = spec.d;
    let run = move |ch: &mut Chooser| -> ExecResult {
        let tr = run_ew(&spec.cfg, &spec.script, &spec.env, ch);
        if crate::lwprops::verbose() { print_ew(&spec.cfg, &tr); }
        let violations = eval_ew(&spec, &tr);
        ExecResult {
            violations, panic: None, outcome: ew_outcome(&tr), states: ew_states(&tr),
            transitions: tr.obs.iter().map(|o| o.s_stepped as u64 + o.c_stepped.iter().filter(|x| **x).count() as u64).sum::<u64>() + tr.delivered.len() as u64,
            witnesses: ew_witnesses(&tr) << 32,
            sample: if ch.taken.iter().any(|&c| c != 0) && ch.taken.len() % 5 == 2 { Some(format!("cfg={} script={} choices={:?} rounds={} datagrams={} events={}", spec.cfg.name(), script_name(&spec.script), ch.taken, tr.rounds, tr.wire.len(), tr.cev.iter().chain(tr.sev.iter()).map(|v| v.len()).sum::<usize>())) } else { None },
        }
    };
    Scenario { name, d, run: Box::new(run) }
}
