//! Link world: two real `HalfConnection`s joined by a harness-owned network, driven exactly the
//! way `Client::step` / `Server::step` drive an active connection (flush, handle frames, step,
//! receive), under a virtual clock. Every nondeterministic decision is a choice point.

use crate::explore::*;
use std::collections::HashMap;
use uflow::verif::frame::Frame;
use uflow::verif::*;
use uflow::SendMode;

pub const FRAG: usize = 1448;

#[derive(Clone, Debug)]
pub struct LwCfg {
    pub pwin: u32,
    pub fwin: u32,
    pub pbase: [u32; 2],
    pub fbase: [u32; 2],
    pub rx_alloc: [usize; 2],
    pub bw: [u32; 2],
    pub keepalive: Option<u64>,
    pub latency: usize,
    /// side s's application calls step() only in every n-th round (a slow peer application); 1 = every round
    pub step_every: [usize; 2],
    /// scripted loss (not a choice): every frame that carries (a fragment of) the packet submitted by script operation `op` - all its
    /// fragments or one of them - is lost in rounds before `until`
    pub kill: Option<(usize, Option<u16>, usize)>,
}

impl LwCfg {
    pub fn small() -> Self {
        Self { pwin: 4, fwin: 4, pbase: [0, 77], fbase: [0, 1000], rx_alloc: [1_000_000; 2], bw: [2_000_000; 2], keepalive: Some(5000), latency: 1, step_every: [1, 1], kill: None }
    }
    pub fn name(&self) -> String {
        format!("pw{}fw{}pb{:x}.{:x}fb{:x}.{:x}al{}.{}bw{}.{}ka{}lat{}", self.pwin, self.fwin, self.pbase[0], self.pbase[1], self.fbase[0], self.fbase[1],
            self.rx_alloc[0], self.rx_alloc[1], self.bw[0], self.bw[1], self.keepalive.map_or(-1, |k| k as i64), self.latency) + &(match self.kill { Some((op, f, until)) => format!("kill{}.{}.{}", op, f.map_or(-1, |x| x as i64), until), None => String::new() }) + &(if self.step_every != [1, 1] { format!("se{}.{}", self.step_every[0], self.step_every[1]) } else { String::new() })
    }
    pub fn half(&self, side: usize) -> HalfConfig {
        let o = 1 - side;
        HalfConfig {
            tx_frame_base_id: self.fbase[side], rx_frame_base_id: self.fbase[o],
            tx_frame_window_size: self.fwin, rx_frame_window_size: self.fwin,
            tx_packet_base_id: self.pbase[side], rx_packet_base_id: self.pbase[o],
            tx_packet_window_size: self.pwin, rx_packet_window_size: self.pwin,
            tx_bandwidth_limit: self.bw[side],
            tx_alloc_limit: self.rx_alloc[o], rx_alloc_limit: self.rx_alloc[side],
            keepalive_interval_ms: self.keepalive,
        }
    }
}

#[derive(Clone, Copy, Debug, PartialEq)]
pub enum OpKind { Send { ch: u8, mode: SendMode, size: usize }, Flush }

#[derive(Clone, Copy, Debug)]
pub struct Op { pub round: usize, pub side: usize, pub kind: OpKind }

pub fn send(round: usize, side: usize, ch: u8, mode: SendMode, size: usize) -> Op { Op { round, side, kind: OpKind::Send { ch, mode, size } } }

pub fn mode_char(m: SendMode) -> char { match m { SendMode::TimeSensitive => 'T', SendMode::Unreliable => 'U', SendMode::Persistent => 'P', SendMode::Reliable => 'R' } }

pub fn script_name(ops: &[Op]) -> String {
    let mut s = String::new();
    for o in ops {
        match o.kind {
            OpKind::Send { ch, mode, size } => s.push_str(&format!("{}{}@{}c{}{}x{}_", if o.side == 0 { 'a' } else { 'b' }, "", o.round, ch, mode_char(mode), size)),
            OpKind::Flush => s.push_str(&format!("{}F@{}_", if o.side == 0 { 'a' } else { 'b' }, o.round)),
        }
    }
    // long scripts: the first eight operations, the number of operations and a hash of the full text
    if ops.len() > 24 {
        let mut h = 0xcbf29ce484222325u64; for b in s.bytes() { h ^= b as u64; h = h.wrapping_mul(0x100000001b3); }
        let head: String = s.split_inclusive('_').take(8).collect();
        return format!("{}..{}ops.{:08x}", head, ops.len(), h as u32);
    }
    s
}

#[derive(Clone, Copy, Debug, PartialEq)]
pub enum Fate { Deliver, Drop, Dup, DupLate, Delay1, Delay3, Corrupt, Delay6 }

pub const FATES_ALL: &[Fate] = &[Fate::Deliver, Fate::Drop, Fate::Dup, Fate::DupLate, Fate::Delay1, Fate::Delay3, Fate::Corrupt];
pub const FATES_LOSS: &[Fate] = &[Fate::Deliver, Fate::Drop];
pub const FATES_BASIC: &[Fate] = &[Fate::Deliver, Fate::Drop, Fate::Dup, Fate::Delay1];
pub const FATES_NONE: &[Fate] = &[Fate::Deliver];

#[derive(Clone, Debug)]
pub struct LwEnv {
    pub fates: &'static [Fate],
    /// step spacing menu in ms; index 0 is the default cadence
    pub deltas: &'static [u64],
    /// choice points exist only in rounds < dev_rounds; afterwards the environment is benign
    pub dev_rounds: usize,
    /// first round of the deviation window (rounds before it are a benign warm-up)
    pub dev_start: usize,
    pub max_rounds: usize,
    /// per-round choice "only A steps / only B steps"
    pub skip_choice: bool,
    /// per-round choice of extra flush() calls by the application (0, 1, 3)
    pub flush_choice: bool,
    /// blackout choice: at one round in the deviation window all frames (one or both directions) are lost for `len` rounds
    pub blackouts: &'static [(u8, usize)], // (direction mask 1=a->b,2=b->a,3=both, length in rounds)
    /// stop as soon as both sides are idle, nothing is in flight and all ops are done
    pub stop_when_idle: bool,
    /// one of the choices of `deltas` to use after the deviation window (fair phase cadence)
    pub fair_delta: u64,
    /// after this many rounds the cadence becomes slow_delta (long fair suffixes stay affordable)
    pub slow_after: usize,
    pub slow_delta: u64,
    /// fuel per API call
    pub fuel: u64,
    /// lasting change of the link or of the application cadence, chosen like a blackout: from one round of the window on
    pub shifts: &'static [Shift],
}

#[derive(Clone, Copy, Debug, PartialEq)]
pub enum Shift { Latency(usize), Cadence(u64) }

impl LwEnv {
    pub fn name(&self) -> String {
        format!("f{}d{:?}dev{}+{}max{}{}{}bl{}", self.fates.len(), self.deltas, self.dev_start, self.dev_rounds, self.max_rounds,
            if self.skip_choice { "S" } else { "" }, if self.flush_choice { "F" } else { "" }, self.blackouts.len()) + &(if self.shifts.is_empty() { String::new() } else { format!("sh{}", self.shifts.len()) })
    }
}

#[derive(Clone, Debug)]
pub struct Sub { pub side: usize, pub ch: u8, pub idx: u32, pub size: usize, pub mode: SendMode, pub round: usize, pub t_ms: u64, pub accepted: bool }

#[derive(Clone, Debug)]
pub struct Del { pub side: usize, pub round: usize, pub t_ms: u64, pub sub: Option<usize>, pub len: usize }

#[derive(Clone, Debug)]
pub struct Em { pub side: usize, pub round: usize, pub t_ms: u64, pub len: usize, pub frame: Option<Frame>, pub fate: Fate, pub step_no: u32 }

#[derive(Clone, Debug)]
pub struct Rx { pub side: usize, pub round: usize, pub t_ms: u64, pub em: usize, pub parsed: bool, pub step_no: u32 }

#[derive(Clone, Debug)]
pub struct Obs { pub side: usize, pub round: usize, pub t_ms: u64, pub sbs: usize, pub pending: bool, pub rtt: Option<f64>, pub probe: Probe, pub stepped: bool }

#[derive(Default)]
pub struct Trace {
    pub subs: Vec<Sub>,
    pub dels: Vec<Del>,
    pub ems: Vec<Em>,
    pub rxs: Vec<Rx>,
    pub obs: Vec<Obs>,
    pub rounds: usize,
    pub idle_end: bool,
    pub last_dev_round: usize,
    pub blackout: Option<(usize, u8, usize)>,
    pub shift: Option<(usize, Shift)>,
}

pub struct FS(pub Vec<Vec<u8>>);
impl FrameSink for FS { fn send(&mut self, d: &[u8]) { self.0.push(d.to_vec()); } }
pub struct PS(pub Vec<Box<[u8]>>);
impl PacketSink for PS { fn send(&mut self, d: Box<[u8]>) { self.0.push(d); } }

/// Deterministic self-identifying payload.
pub fn payload(side: usize, ch: u8, idx: u32, size: usize) -> Box<[u8]> {
    let mut v = Vec::with_capacity(size);
    let mut x = ((((side as u64) << 8 | ch as u64) << 32 | idx as u64) ^ ((size as u64) << 44)).wrapping_mul(0x9E3779B97F4A7C15) | 1;
    let hdr = [0xA0 | side as u8, ch, (idx >> 24) as u8, (idx >> 16) as u8, (idx >> 8) as u8, idx as u8];
    for i in 0..size {
        if size >= 6 && i < 6 { v.push(hdr[i]); } else { x ^= x << 13; x ^= x >> 7; x ^= x << 17; v.push((x >> 24) as u8); }
    }
    v.into()
}

/// Static description of a script: payload of every submission and reverse lookup.
pub struct ScriptInfo {
    pub ops: Vec<Op>,
    pub payloads: Vec<Option<Box<[u8]>>>,          // per op (None for Flush)
    pub op_sub: Vec<Option<(u8, u32)>>,             // per op: (ch, idx)
    pub by_content: [HashMap<Vec<u8>, usize>; 2],   // sender side -> payload -> op index
    pub by_tag: [HashMap<(u8, u32), usize>; 2],
    /// op indices per (round, side), in script order
    pub by_round: HashMap<(usize, usize), Vec<usize>>,
    pub name: String,
}

impl ScriptInfo {
    pub fn new(ops: Vec<Op>) -> Self {
        let mut payloads = Vec::new(); let mut op_sub = Vec::new();
        let mut by_content: [HashMap<Vec<u8>, usize>; 2] = [HashMap::new(), HashMap::new()];
        let mut by_tag: [HashMap<(u8, u32), usize>; 2] = [HashMap::new(), HashMap::new()];
        let mut counters: HashMap<(usize, u8), u32> = HashMap::new();
        // ops must be sorted by (round, side-order-of-execution); keep given order within a round
        for (i, o) in ops.iter().enumerate() {
            match o.kind {
                OpKind::Send { ch, size, .. } => {
                    let c = counters.entry((o.side, ch)).or_insert(0); let idx = *c; *c += 1;
                    let p = payload(o.side, ch, idx, size);
                    if by_content[o.side].insert(p.to_vec(), i).is_some() { panic!("machinery: script has two identical payloads (size {}), cannot identify deliveries", size); }
                    by_tag[o.side].insert((ch, idx), i);
                    payloads.push(Some(p)); op_sub.push(Some((ch, idx)));
                }
                OpKind::Flush => { payloads.push(None); op_sub.push(None); }
            }
        }
        let name = script_name(&ops);
        let mut by_round: HashMap<(usize, usize), Vec<usize>> = HashMap::new();
        for (i, o) in ops.iter().enumerate() { by_round.entry((o.round, o.side)).or_default().push(i); }
        Self { ops, payloads, op_sub, by_content, by_tag, by_round, name }
    }
}

struct InFlight { due: usize, seq: usize, em: usize, bytes: Vec<u8>,
    /// held back by the network: it arrives behind the frames that reach the same round on time (both are then read by the same step, in swapped order)
    late: bool }

pub fn dispatch(hc: &mut HalfConnection, bytes: &[u8]) -> bool {
    match Frame::read(bytes) {
        Some(Frame::DataFrame(f)) => { hc.handle_data_frame(f); true }
        Some(Frame::AckFrame(f)) => { hc.handle_ack_frame(f); true }
        Some(Frame::SyncFrame(f)) => { hc.handle_sync_frame(f); true }
        Some(_) => true,
        None => false,
    }
}

/// Hook for injecting extra frames (hostile / replayed) into an endpoint at a given round.
pub type Injector<'a> = dyn FnMut(usize, usize, &Trace, &mut HalfConnection) -> Vec<Vec<u8>> + 'a;

/// One execution of the link world. The returned trace is evaluated by the property oracles.
pub fn run_lw(cfg: &LwCfg, si: &ScriptInfo, env: &LwEnv, ch: &mut Chooser, mut inject: Option<&mut Injector>) -> Trace {
    set_time_ms(0); seed(0x5EED_1234); set_fuel(u64::MAX);
    let mut hcs = [HalfConnection::new(cfg.half(0)), HalfConnection::new(cfg.half(1))];
    let mut nets: [Vec<InFlight>; 2] = [Vec::new(), Vec::new()]; // nets[s] = frames travelling towards side s
    let mut tr = Trace::default();
    let mut now = 0u64; let mut seq = 0usize;
    let last_op_round = si.ops.iter().map(|o| o.round).max().unwrap_or(0);
    let mut quiet = 0; let mut step_no = [0u32; 2];
    // packet ids (per sending side) of the packet named by cfg.kill, learnt when its first fragment is first emitted
    let mut killed_ids: [std::collections::HashSet<u32>; 2] = [Default::default(), Default::default()];
    // blackout choice (one per execution, counted as one deviation)
    let mut blackout: Option<(usize, u8, usize)> = None;
    if !env.blackouts.is_empty() {
        let n = env.blackouts.len() * env.dev_rounds;
        // a choice point answers in a byte: beyond 255 alternatives the choice is taken in two steps (which blackout, then a free choice of its first round)
        let c = if n + 1 <= 255 { ch.choose(n + 1) } else { let b = ch.choose(env.blackouts.len() + 1); if b == 0 { 0 } else { 1 + ch.free(env.dev_rounds) * env.blackouts.len() + (b - 1) } };
        if c > 0 { let k = c - 1; let (mask, len) = env.blackouts[k % env.blackouts.len()]; blackout = Some((env.dev_start + k / env.blackouts.len(), mask, len)); }
    }
    tr.blackout = blackout;
    let mut shift: Option<(usize, Shift)> = None;
    if !env.shifts.is_empty() {
        let n = env.shifts.len() * env.dev_rounds;
        let c = if n + 1 <= 255 { ch.choose(n + 1) } else { let b = ch.choose(env.shifts.len() + 1); if b == 0 { 0 } else { 1 + ch.free(env.dev_rounds) * env.shifts.len() + (b - 1) } };
        if c > 0 { let k = c - 1; shift = Some((env.dev_start + k / env.shifts.len(), env.shifts[k % env.shifts.len()])); }
    }
    tr.shift = shift;
    for round in 0..env.max_rounds {
        let dev = round >= env.dev_start && round < env.dev_start + env.dev_rounds;
        let dsel = if dev { ch.choose(env.deltas.len()) } else { usize::MAX };
        let mut delta = if dsel == usize::MAX { if round >= env.slow_after { env.slow_delta } else { env.fair_delta } } else { env.deltas[dsel] };
        let mut latency = cfg.latency;
        if let Some((r0, sh)) = shift { if round >= r0 { match sh { Shift::Latency(l) => latency = l, Shift::Cadence(c) => if dsel == usize::MAX || dsel == 0 { delta = c; } } } }
        if dsel != usize::MAX && dsel != 0 { tr.last_dev_round = round; }
        now += delta; set_time_ms(now);
        let skip = if dev && env.skip_choice { ch.choose(3) } else { 0 };
        if skip != 0 { tr.last_dev_round = round; }
        for side in 0..2 {
            let other = 1 - side;
            let stepped = !((skip == 1 && side == 1) || (skip == 2 && side == 0)) && round % cfg.step_every[side].max(1) == 0;
            // application operations scheduled for this round happen before the step
            let mut extra_flush = 0;
            // (short scripts: a scan is cheaper than hashing; long ones: the index)
            let scan: Vec<usize>; let due: &[usize] = if si.ops.len() <= 48 { scan = si.ops.iter().enumerate().filter(|(_, o)| o.round == round && o.side == side).map(|(i, _)| i).collect(); &scan } else { si.by_round.get(&(round, side)).map(|v| v.as_slice()).unwrap_or(&[]) };
            for (i, op) in due.iter().map(|&i| (i, &si.ops[i])) {
                match op.kind {
                    OpKind::Send { ch: c, mode, size } => {
                        let (cc, idx) = si.op_sub[i].unwrap();
                        set_fuel(env.fuel);
                        hcs[side].send(si.payloads[i].clone().unwrap(), c, mode);
                        tr.subs.push(Sub { side, ch: cc, idx, size, mode, round, t_ms: now, accepted: true });
                    }
                    OpKind::Flush => extra_flush += 1,
                }
            }
            if dev && env.flush_choice { let f = ch.choose(3); if f != 0 { tr.last_dev_round = round; } extra_flush += [0, 1, 3][f]; }
            if stepped {
                let passes = 1 + extra_flush;
                // Client::step order: flush, handle frames, step, receive; extra flush() calls of the
                // application happen after the step (they use the refreshed credit)
                for pass in 0..passes {
                    if pass == 1 {
                        // frames -> step -> receive happen between the step's own flush and the application's extra flushes
                    }
                    let mut fs = FS(vec![]);
                    set_fuel(env.fuel);
                    hcs[side].flush(&mut fs);
                    for f in fs.0 {
                        let parsed = Frame::read(&f);
                        let in_blackout = match blackout { Some((r0, mask, len)) => round >= r0 && round < r0 + len && (mask & (1 << side)) != 0, None => false };
                        let killed = match (cfg.kill, &parsed) { (Some((op, fr, until)), Some(Frame::DataFrame(df))) if round < until => df.datagrams.iter().any(|dg| fr.map_or(true, |x| x == dg.fragment_id) && killed_ids[side].contains(&dg.sequence_id) || (dg.fragment_id == 0 && identify(si, side, dg) == Some(op) && { killed_ids[side].insert(dg.sequence_id); fr.map_or(true, |x| x == 0) })), _ => false };
                        let fate = if in_blackout || killed { Fate::Drop } else if dev && env.fates.len() > 1 { let k = ch.choose(env.fates.len()); if k != 0 { tr.last_dev_round = round; } env.fates[k] } else { Fate::Deliver };
                        let em = tr.ems.len();
                        tr.ems.push(Em { side, round, t_ms: now, len: f.len(), frame: parsed, fate, step_no: step_no[side] });
                        let l = latency;
                        let mut push = |due: usize, bytes: Vec<u8>, seq: &mut usize| { nets[other].push(InFlight { due, seq: *seq, em, bytes, late: due > round + l }); *seq += 1; };
                        match fate {
                            Fate::Deliver => push(round + l, f, &mut seq),
                            Fate::Drop => {}
                            Fate::Dup => { push(round + l, f.clone(), &mut seq); push(round + l + 1, f, &mut seq); }
                            Fate::DupLate => { push(round + l, f.clone(), &mut seq); push(round + l + 5, f, &mut seq); }
                            Fate::Delay1 => push(round + l + 1, f, &mut seq),
                            Fate::Delay3 => push(round + l + 3, f, &mut seq),
                            Fate::Delay6 => push(round + l + 6, f, &mut seq),
                            Fate::Corrupt => { let mut g = f; let n = g.len(); g[n / 2] ^= 0x10; g[0] ^= 0x01; g[n - 1] ^= 0x80; if n > 7 { g[5] ^= 0x04; } push(round + l, g, &mut seq); }
                        }
                    }
                    if pass == 0 {
                        // deliver due frames
                        let mut due: Vec<InFlight> = Vec::new(); let mut rest: Vec<InFlight> = Vec::new();
                        for f in nets[side].drain(..) { if f.due <= round { due.push(f) } else { rest.push(f) } }
                        nets[side] = rest;
                        due.sort_by_key(|f| (f.due, f.late, f.seq));
                        for f in due {
                            set_fuel(env.fuel);
                            let ok = dispatch(&mut hcs[side], &f.bytes);
                            tr.rxs.push(Rx { side, round, t_ms: now, em: f.em, parsed: ok, step_no: step_no[side] });
                        }
                        if let Some(inj) = inject.as_mut() {
                            let frames = inj(round, side, &tr, &mut hcs[side]);
                            for b in frames { set_fuel(env.fuel); dispatch(&mut hcs[side], &b); }
                        }
                        set_fuel(env.fuel);
                        hcs[side].step();
                        step_no[side] += 1;
                        let mut ps = PS(vec![]);
                        set_fuel(env.fuel);
                        hcs[side].receive(&mut ps);
                        for p in ps.0 {
                            let sub = si.by_content[other].get(&p[..]).copied();
                            tr.dels.push(Del { side, round, t_ms: now, sub, len: p.len() });
                        }
                    }
                }
            }
            set_fuel(u64::MAX);
            tr.obs.push(Obs { side, round, t_ms: now, sbs: hcs[side].send_buffer_size(), pending: hcs[side].is_send_pending(), rtt: hcs[side].rtt_s(), probe: hcs[side].verif_probe(), stepped });
        }
        tr.rounds = round + 1;
        if env.stop_when_idle && round >= last_op_round && round >= (env.dev_start + env.dev_rounds).min(last_op_round + 1) {
            let pa = &tr.obs[tr.obs.len() - 2]; let pb = &tr.obs[tr.obs.len() - 1];
            let idle = nets[0].is_empty() && nets[1].is_empty() && !pa.pending && !pb.pending
                && pa.probe.tx_packet_base == pa.probe.tx_packet_next && pb.probe.tx_packet_base == pb.probe.tx_packet_next
                && pa.probe.ack_queue_len == 0 && pb.probe.ack_queue_len == 0;
            if idle { quiet += 1; if quiet >= 3 { tr.idle_end = true; break; } } else { quiet = 0; }
        }
    }
    set_fuel(u64::MAX);
    tr
}

/// Index of the op behind the k-th submission of the trace (subs are pushed in op order).
pub fn sub_ops(si: &ScriptInfo) -> Vec<usize> {
    // ops executed in order of (round, side, position); subs follow the same order
    let mut idx: Vec<usize> = (0..si.ops.len()).filter(|&i| matches!(si.ops[i].kind, OpKind::Send { .. })).collect();
    idx.sort_by_key(|&i| (si.ops[i].round, si.ops[i].side, i));
    idx
}

pub fn viol(clause: &str, sig: String, detail: String) -> Violation { Violation { clause: clause.to_string(), sig, detail } }

pub fn outcome_hash(tr: &Trace) -> u64 {
    let mut h = 0xcbf29ce484222325u64;
    for d in tr.dels.iter() { h = fnv(h, (d.side as u64) << 40 | (d.sub.map_or(0xFFFF, |s| s as u64)) << 8 | (d.round as u64 & 0xFF)); }
    h = fnv(h, tr.ems.len() as u64);
    h = fnv(h, tr.rounds as u64);
    if let Some(o) = tr.obs.last() { h = fnv(h, o.sbs as u64); h = fnv(h, o.probe.tx_frame_next as u64); }
    h
}

pub fn state_hashes(tr: &Trace) -> Vec<u64> {
    let mut v = Vec::with_capacity(tr.obs.len());
    let mut dcount = [0u64; 2];
    let mut di = 0;
    for o in tr.obs.iter() {
        while di < tr.dels.len() && tr.dels[di].round <= o.round { dcount[tr.dels[di].side] += 1; di += 1; }
        let p = &o.probe;
        let mut h = 0xcbf29ce484222325u64;
        for x in [o.side as u64, o.sbs as u64, o.pending as u64, p.pending_len as u64, p.resend_len as u64, p.send_queue_len as u64,
                  p.tx_packet_base as u64, p.tx_packet_next as u64, p.tx_frame_base as u64, p.tx_frame_next as u64, p.rx_packet_base as u64,
                  p.rx_frame_base as u64, p.rx_alloc as u64, p.ack_queue_len as u64, p.send_rate as u64, dcount[0], dcount[1]] { h = fnv(h, x); }
        v.push(h);
    }
    v
}

pub fn render(cfg: &LwCfg, si: &ScriptInfo, ch: &Chooser, tr: &Trace) -> String {
    format!("cfg={} script={} choices={:?} rounds={} frames={} deliveries={}", cfg.name(), si.name, ch.taken, tr.rounds, tr.ems.len(), tr.dels.len())
}

// ------------------------------------------------------------------------------------------------
// Oracles over a trace
// ------------------------------------------------------------------------------------------------

/// C01: per channel, deliveries are a subsequence of submissions in order; nothing twice; bytes exact.
pub fn oracle_c01(si: &ScriptInfo, tr: &Trace) -> Option<Violation> {
    let mut last: HashMap<(usize, u8), i64> = HashMap::new();
    for d in tr.dels.iter() {
        let op = match d.sub {
            Some(op) => op,
            None => return Some(viol("C01.content", format!("C01.content:len{}", d.len), format!("side {} was handed a packet of {} bytes at round {} that matches no submitted packet (altered or foreign contents)", d.side, d.len, d.round))),
        };
        let (chn, idx) = si.op_sub[op].unwrap();
        let e = last.entry((d.side, chn)).or_insert(-1);
        if (idx as i64) == *e { return Some(viol("C01.duplicate", "C01.duplicate".into(), format!("packet ch{} #{} delivered twice to side {} (round {})", chn, idx, d.side, d.round))); }
        if (idx as i64) < *e { return Some(viol("C01.order", "C01.order".into(), format!("packet ch{} #{} delivered to side {} after #{} of the same channel (round {})", chn, idx, d.side, *e, d.round))); }
        *e = idx as i64;
    }
    None
}

/// C02 safety: a packet submitted after a Reliable packet on the same channel is never delivered before it.
pub fn oracle_c02_safety(si: &ScriptInfo, tr: &Trace) -> Option<Violation> {
    if si.ops.len() <= 48 {
        // short scripts: the direct formulation
        for side in 0..2 {
            let sender = 1 - side;
            let mut delivered: Vec<usize> = Vec::new();
            for d in tr.dels.iter().filter(|d| d.side == side) {
                if let Some(op) = d.sub {
                    let (chn, idx) = si.op_sub[op].unwrap();
                    for j in 0..idx {
                        let opj = si.by_tag[sender][&(chn, j)];
                        if let OpKind::Send { mode: SendMode::Reliable, .. } = si.ops[opj].kind {
                            if !delivered.contains(&opj) { return Some(viol("C02.skip", "C02.skip".into(), format!("side {} received ch{} #{} (round {}) although Reliable ch{} #{} had not been delivered", side, chn, idx, d.round, chn, j))); }
                        }
                    }
                    delivered.push(op);
                }
            }
        }
        return None;
    }
    for side in 0..2 { // receiver side
        let sender = 1 - side;
        // per channel: the submission indices of its Reliable packets in order, and how many of the oldest of them are delivered
        let mut rel: HashMap<u8, Vec<u32>> = HashMap::new();
        for (i, o) in si.ops.iter().enumerate().filter(|(_, o)| o.side == sender) { if let OpKind::Send { mode: SendMode::Reliable, .. } = o.kind { let (chn, idx) = si.op_sub[i].unwrap(); rel.entry(chn).or_default().push(idx); } }
        for v in rel.values_mut() { v.sort(); }
        let mut pos: HashMap<u8, usize> = HashMap::new();
        let mut done: std::collections::HashSet<(u8, u32)> = Default::default();
        for d in tr.dels.iter().filter(|d| d.side == side) {
            if let Some(op) = d.sub {
                let (chn, idx) = si.op_sub[op].unwrap();
                let r = rel.get(&chn).map(|v| v.as_slice()).unwrap_or(&[]);
                let p = pos.entry(chn).or_insert(0);
                // every earlier Reliable packet of this channel must already be delivered
                if *p < r.len() && r[*p] < idx {
                    return Some(viol("C02.skip", "C02.skip".into(), format!("side {} received ch{} #{} (round {}) although Reliable ch{} #{} had not been delivered", side, chn, idx, d.round, chn, r[*p])));
                }
                if let OpKind::Send { mode: SendMode::Reliable, .. } = si.ops[op].kind { done.insert((chn, idx)); while *p < r.len() && done.contains(&(chn, r[*p])) { *p += 1; } }
            }
        }
    }
    None
}

/// C02/C11 bounded liveness, evaluated on traces that ended with a fair phase: all Reliable packets
/// delivered exactly once, nothing pending, send buffer zero.
pub fn oracle_c02_live(si: &ScriptInfo, tr: &Trace, clause: &str) -> Option<Violation> {
    for side in 0..2 {
        let sender = 1 - side;
        for (i, o) in si.ops.iter().enumerate().filter(|(_, o)| o.side == sender) {
            if let OpKind::Send { mode: SendMode::Reliable, ch, size } = o.kind {
                let n = tr.dels.iter().filter(|d| d.side == side && d.sub == Some(i)).count();
                if n != 1 {
                    let last = tr.obs.last().unwrap();
                    return Some(viol(clause, format!("{}:undelivered", clause), format!("Reliable packet ch{} size {} (op {}) delivered {} times by the horizon (t={} ms, {} rounds; last deviation in round {})", ch, size, i, n, last.t_ms, tr.rounds, tr.last_dev_round)));
                }
            }
        }
    }
    let n = tr.obs.len();
    for o in &tr.obs[n - 2..] {
        if o.pending { return Some(viol(clause, format!("{}:pending", clause), format!("side {} still reports is_send_pending() at the horizon (t={} ms)", o.side, o.t_ms))); }
        if o.sbs != 0 { return Some(viol(clause, format!("{}:sbs", clause), format!("side {} reports send_buffer_size()={} at the horizon (t={} ms)", o.side, o.sbs, o.t_ms))); }
    }
    None
}

/// C14 on the link: "the RTT estimate is the 0.9/0.1 moving average of the samples", and a sample is the age of a frame whose
/// acknowledgement has just arrived. Whenever a side's estimate changes, the sample implied by the change must lie between the ages (time
/// of the step that processed the acknowledgement minus time of the flush that emitted the frame) of the youngest of its frames
/// acknowledged for the first time by the ack frames handed over in that round (RFC 5348 4.3: the most recent one the feedback covers). The upper end is taken from the time a frame was
/// stamped with: flush() uses the clock of the previous step() (noted in section 5 of DESIGN.md, no property forbids it).
pub fn oracle_rtt_samples(tr: &Trace) -> Option<Violation> {
    for side in 0..2usize {
        let mut acked: std::collections::HashSet<u32> = Default::default();
        let obs: Vec<&Obs> = tr.obs.iter().filter(|o| o.side == side).collect();
        // times of this side's steps, in order (index k = after k steps; 0 = creation)
        let mut step_times: Vec<u64> = vec![0]; step_times.extend(obs.iter().filter(|o| o.stepped).map(|o| o.t_ms));
        // every data frame of this side (frame ids are never reused within a run): time of the flush that emitted it, and the time it
        // was stamped with - the clock of the last step() before that flush
        let sent: HashMap<u32, (u64, u64)> = tr.ems.iter().filter(|e| e.side == side).filter_map(|e| match &e.frame { Some(Frame::DataFrame(d)) => Some((d.sequence_id, (e.t_ms, step_times.get(e.step_no as usize).copied().unwrap_or(e.t_ms)))), _ => None }).collect();
        for w in 0..obs.len() {
            let o = obs[w];
            // frames acknowledged for the first time by what was handed to this side in this round: (age, age by its stamp)
            let mut fresh: Vec<(u64, u64)> = Vec::new();
            for rx in tr.rxs.iter().filter(|r| r.side == side && r.round == o.round && r.parsed) {
                if let Some(Frame::AckFrame(a)) = &tr.ems[rx.em].frame {
                    for g in a.frame_acks.iter() { for b in 0..32u32 { if g.bitfield >> b & 1 == 1 { let id = g.base_id.wrapping_add(b); if let Some(&(t, st)) = sent.get(&id) { if t <= o.t_ms && acked.insert(id) { fresh.push((o.t_ms - t, o.t_ms.saturating_sub(st))); } } } } }
                }
            }
            let prev = if w > 0 { obs[w - 1].rtt } else { None };
            if o.rtt == prev || !o.stepped { continue; }
            let new = match o.rtt { Some(r) => r * 1000.0, None => continue };
            let sample = match prev { Some(p) => (new - 0.9 * p * 1000.0) / 0.1, None => new };
            if fresh.is_empty() {
                return Some(viol("C14.rtt", "C14.rtt:changed-without-a-fresh-acknowledgement".into(), format!("side {}: the RTT estimate changed from {:?} to {:.4} s in round {} although no frame of this side was acknowledged for the first time in that round", side, prev, new / 1000.0, o.round)));
            }
            // RFC 5348 4.3: the sample is measured on the most recent frame the feedback covers - the youngest of the fresh ones
            let youngest = *fresh.iter().min_by_key(|x| x.0).unwrap();
            let (lo, hi) = (youngest.0 as f64, youngest.1 as f64);
            if sample < lo - 1.5 || sample > hi + 1.5 {
                return Some(viol("C14.rtt", format!("C14.rtt:sample-{}", if sample < lo { "below-the-age-of-the-youngest-fresh-frame" } else { "above-the-age-of-the-youngest-fresh-frame" }), format!("side {}: in round {} (t={} ms) the RTT estimate went from {:?} to {:.4} s, i.e. a sample of {:.1} ms entered the 0.9/0.1 average; the frames acknowledged for the first time in that round were (emitted, stamped) {:?} ms before that step", side, o.round, o.t_ms, prev, new / 1000.0, sample, fresh)));
            }
        }
    }
    None
}

/// Bounded liveness per packet: every Reliable packet is delivered exactly once within `limit_ms` of its submission (for runs in which
/// traffic goes on until the horizon, where the at-the-horizon clauses of `oracle_c02_live` cannot be asked).
pub fn oracle_deadline(si: &ScriptInfo, tr: &Trace, clause: &str, limit_ms: u64) -> Option<Violation> {
    let t_end = tr.obs.last().map_or(0, |o| o.t_ms);
    for (i, o) in si.ops.iter().enumerate() {
        if let OpKind::Send { mode: SendMode::Reliable, ch, size } = o.kind {
            let t_sub = match tr.subs.iter().find(|s| s.side == o.side && s.round == o.round && s.ch == ch && s.size == size) { Some(s) => s.t_ms, None => continue };
            if t_sub + limit_ms > t_end { continue; }
            let n = tr.dels.iter().filter(|d| d.side == 1 - o.side && d.sub == Some(i) && d.t_ms <= t_sub + limit_ms).count();
            if n != 1 {
                let starved = starved_by_own_acks(tr, o.side, o.round).is_some();
                return Some(viol(clause, if starved { format!("{}:undelivered-in-time:{}", clause, D28_MECH) } else { format!("{}:undelivered-in-time", clause) }, format!("Reliable packet ch{} size {} (op {}) submitted by side {} at t={} ms was delivered {} times in the {} s that followed on a network that delivers every frame{}", ch, size, i, o.side, t_sub, n, limit_ms / 1000, if starved { " (the sender had data queued for more than 60 s without emitting a data frame while its acknowledgements for the streaming peer used up its allowed rate)" } else { "" })));
            }
        }
    }
    None
}
pub const D28_MECH: &str = "no-data-frame-for-60s-while-acknowledging-a-streaming-peer-uses-up-the-allowed-rate";

/// Attribution for known finding D28 by its mechanism, not by a number: for at least 60 s after the probes were submitted this side had
/// data queued and put no data frame on the wire, while its peer kept submitting (at least one packet per second) and this side kept
/// acknowledging, the acknowledgement frames alone using up at least half of what its allowed send rate admits (acknowledgements are
/// emitted before data and charged to the same credit, so every flush that has credit spends it on one).
pub const D28_SIG: &str = "C11.live:no-progress:pinned-at-the-floor-rate-while-acknowledging-a-streaming-peer";
pub fn starved_by_own_acks(tr: &Trace, side: usize, probe_round: usize) -> Option<(u64, u64)> {
    let t_probe = tr.obs.iter().find(|o| o.side == side && o.round >= probe_round).map(|o| o.t_ms)?;
    let t_end = tr.obs.iter().filter(|o| o.side == side).last().map(|o| o.t_ms)?;
    // the instants at which this side emitted a data frame, as fence posts
    let mut posts: Vec<u64> = vec![t_probe];
    posts.extend(tr.ems.iter().filter(|e| e.side == side && e.t_ms >= t_probe && matches!(e.frame, Some(Frame::DataFrame(_)))).map(|e| e.t_ms));
    posts.push(t_end);
    for w in posts.windows(2) {
        let (a, b) = (w[0], w[1]);
        if b < a + 60_000 { continue; }
        let dur_s = (b - a) as f64 / 1000.0;
        let queued = tr.obs.iter().filter(|o| o.side == side && o.t_ms > a && o.t_ms < b).all(|o| o.sbs > 0);
        let peer_subs = tr.subs.iter().filter(|x| x.side == 1 - side && x.t_ms >= a && x.t_ms <= b).count() as f64;
        let ack_bytes: usize = tr.ems.iter().filter(|e| e.side == side && e.t_ms > a && e.t_ms < b && matches!(e.frame, Some(Frame::AckFrame(_)))).map(|e| e.len).sum();
        // what the allowed send rate admitted over the period: the rate observed after each step, integrated over time
        let mut allowed = 0.0f64; let mut prev_t = a;
        for o in tr.obs.iter().filter(|o| o.side == side && o.t_ms > a && o.t_ms <= b) { allowed += o.probe.send_rate as f64 * (o.t_ms - prev_t) as f64 / 1000.0; prev_t = o.t_ms; }
        if queued && peer_subs >= dur_s && ack_bytes as f64 >= 0.5 * allowed { return Some((a, b)); }
    }
    None
}

/// C11: after the fault phase, every packet submitted from `probe_round` on in Unreliable,
/// Persistent or Reliable mode is delivered exactly once by the horizon, nothing is pending, and the
/// earlier Reliable packets have been delivered too (no permanent stall).
pub fn oracle_c11(si: &ScriptInfo, tr: &Trace, probe_round: usize) -> Vec<Violation> {
    let mut out = Vec::new();
    // "the receiver ... always answers with an ack": an endpoint that was handed a sync frame owes an acknowledgement frame, and
    // acknowledgements go first - so the first later round in which it transmits anything at all has an acknowledgement frame in it
    // (until then its send allocation may keep it silent; that is the liveness clauses' business)
    for rx in tr.rxs.iter().filter(|r| r.parsed && matches!(tr.ems[r.em].frame, Some(Frame::SyncFrame(_)))) {
        if let Some(first) = tr.ems.iter().filter(|e| e.side == rx.side && e.round > rx.round).map(|e| e.round).min() {
            if !tr.ems.iter().any(|e| e.side == rx.side && e.round == first && matches!(e.frame, Some(Frame::AckFrame(_)))) {
                out.push(viol("C11.sync-reply", "C11.sync-reply:forgotten".into(), format!("side {} was handed a sync frame in round {} (t={} ms); the next round in which it transmitted anything was round {} and there was no acknowledgement frame among what it sent: the reply to the sync frame was forgotten, the sender's windows stay where they are", rx.side, rx.round, rx.t_ms, first)));
                break;
            }
        }
    }
    let what = format!("fault: blackout {:?} shift {:?}, last deviation in round {}", tr.blackout, tr.shift, tr.last_dev_round);
    let last = tr.obs.last().unwrap();
    for side in 0..2 {
        // backlog of this sender when the probes are submitted, and what it has got rid of by the horizon
        let at_probe = match tr.obs.iter().filter(|x| x.side == side && x.round >= probe_round + 6).next() { Some(o) => o, None => continue };
        let end = tr.obs.iter().filter(|x| x.side == side).last().unwrap();
        let elapsed_s = (end.t_ms - at_probe.t_ms) as f64 / 1000.0;
        let done = at_probe.sbs as i64 - end.sbs as i64;
        // With little queued ahead of them the probes must all arrive: at the minimum rate of s/64 = 23 B/s, T_live moves
        // about 6.9 kB; half of that is demanded. With more queued (data from before the fault is still waiting and TFRC may
        // legitimately crawl), the sender must at least have moved half of what the minimum rate allows.
        let small_backlog = (at_probe.sbs as f64) <= 0.5 * 23.0 * elapsed_s;
        let starved = starved_by_own_acks(tr, side, probe_round);
        let mut starved_reported = false;
        for (i, o) in si.ops.iter().enumerate().filter(|(_, o)| o.side == side) {
            if let OpKind::Send { mode, ch, size } = o.kind {
                let is_probe = o.round >= probe_round && mode != SendMode::TimeSensitive;
                let must = small_backlog && (mode == SendMode::Reliable || is_probe);
                if !must { continue; }
                let n = tr.dels.iter().filter(|d| d.side == 1 - side && d.sub == Some(i)).count();
                if n != 1 {
                    // packets of a sender starved by its own acknowledgements (D28) are consequences of that finding: reported once, under its signature
                    if let Some((a, b)) = starved {
                        if !starved_reported { starved_reported = true; out.push(viol("C11.live", D28_SIG.into(), format!("side {} put no data frame on the wire between t={} ms and t={} ms although it had data queued: its peer kept streaming and every flush with credit was spent on an acknowledgement frame; {:?} packet ch{} {} B submitted in round {} was delivered {} times by the horizon (t={} ms); sender rate {} B/s; {}", side, a, b, mode, ch, size, o.round, n, last.t_ms, end.probe.send_rate, what))); }
                        continue;
                    }
                    let sig = format!("C11.live:{}", if is_probe { "probe-undelivered" } else { "reliable-undelivered" });
                    if !out.iter().any(|v: &Violation| v.sig == sig) {
                        out.push(viol("C11.live", sig, format!("{:?} packet ch{} {} B submitted in round {} was delivered {} times by the horizon (t={} ms, {} rounds) although only {} B were queued when the probes were submitted; sender rate {} B/s, rtt {:?}, pending {}; {}", mode, ch, size, o.round, n, last.t_ms, tr.rounds, at_probe.sbs, end.probe.send_rate, end.rtt, end.pending, what)));
                    }
                }
            }
        }
        if !small_backlog && tr.rounds > probe_round + 1000 && (done as f64) < 0.5 * 23.0 * elapsed_s {
            // attribution (known finding D28): the sender sits at the floor rate, has moved less than half of what even that rate allows, and owes acknowledgements
            // to a peer that keeps streaming (every flush with credit is spent on an acknowledgement frame)
            let sig = if starved.is_some() { D28_SIG } else { "C11.live:no-progress" };
            if starved.is_some() && starved_reported { continue; }
            out.push(viol("C11.live", sig.into(), format!("side {} had {} B queued when the probes were submitted (t={} ms) and still has {} B at the horizon (t={} ms): {} B in {:.0} s is less than half of what the minimum rate s/64 = 23 B/s moves; rate {} B/s; {}", side, at_probe.sbs, at_probe.t_ms, end.sbs, end.t_ms, done, elapsed_s, end.probe.send_rate, what)));
        }
    }
    out
}

/// C05: on an ideal network the global delivery sequence equals the submission sequence with
/// TimeSensitive packets optionally missing.
pub fn oracle_c05(si: &ScriptInfo, tr: &Trace) -> Option<Violation> {
    let order = sub_ops(si);
    for side in 0..2 {
        let sender = 1 - side;
        let expect: Vec<usize> = order.iter().copied().filter(|&i| si.ops[i].side == sender).collect();
        let got: Vec<usize> = match tr.dels.iter().filter(|d| d.side == side).map(|d| d.sub).collect::<Option<Vec<_>>>() {
            Some(g) => g, None => return Some(viol("C05.content", "C05.content".into(), "a delivered packet matches no submitted packet".into())) };
        let mut gi = 0;
        for &e in expect.iter() {
            let mode = if let OpKind::Send { mode, .. } = si.ops[e].kind { mode } else { unreachable!() };
            if gi < got.len() && got[gi] == e { gi += 1; }
            else if mode != SendMode::TimeSensitive {
                return Some(viol("C05.missing", format!("C05.missing:{}", mode_char(mode)), format!("ideal network: packet op {} ({:?}) sent by side {} was not delivered at its place in the global order; expected order {:?}, delivered {:?}", e, si.ops[e].kind, sender, expect, got)));
            }
        }
        if gi != got.len() { return Some(viol("C05.order", "C05.order".into(), format!("ideal network: side {} saw deliveries {:?}, which is not the submission order {:?} (extra, repeated or reordered packets)", side, got, expect))); }
    }
    None
}

/// C04 wire clause: no emitted frame exceeds 1472 bytes.
pub fn oracle_frame_size(tr: &Trace) -> Option<Violation> {
    for e in tr.ems.iter() { if e.len > 1472 { return Some(viol("C04.framesize", "C04.framesize".into(), format!("side {} emitted a frame of {} bytes (> 1472) in round {}", e.side, e.len, e.round))); } }
    None
}

/// C20: send_buffer_size() equals accepted-and-not-yet-acknowledged bytes.
/// The model derives bounds from the API calls and the wire only. A packet certainly still counts
/// (it is in L and U) until an ack frame whose packet window base is beyond its id has been handed
/// to the sender; a TimeSensitive packet that never reaches the wire may have been discarded any
/// time from the first step after its submission (it is in U but not in L from then on).
pub fn oracle_c20(cfg: &LwCfg, si: &ScriptInfo, tr: &Trace) -> Option<Violation> {
    let order = sub_ops(si);
    for side in 0..2 {
        let start_base = cfg.pbase[side];
        let mut id_of_op: HashMap<usize, u32> = HashMap::new();
        for e in tr.ems.iter().filter(|e| e.side == side) {
            if let Some(Frame::DataFrame(df)) = &e.frame {
                for dg in df.datagrams.iter() {
                    if dg.fragment_id == 0 { if let Some(op) = identify(si, side, dg) { id_of_op.entry(op).or_insert(dg.sequence_id); } }
                }
            }
        }
        let mut released = 0u32; let mut ri = 0usize;
        let rxs: Vec<&Rx> = tr.rxs.iter().filter(|r| r.side == side && r.parsed).collect();
        for o in tr.obs.iter().filter(|o| o.side == side) {
            while ri < rxs.len() && rxs[ri].round <= o.round {
                if let Some(Frame::AckFrame(af)) = &tr.ems[rxs[ri].em].frame {
                    let delta = af.packet_window_base_id.wrapping_sub(start_base) & 0xFFFFF;
                    if delta < 0x80000 { released = released.max(delta); }
                }
                ri += 1;
            }
            let mut lo = 0usize; let mut hi = 0usize;
            for &op in order.iter().filter(|&&i| si.ops[i].side == side && si.ops[i].round <= o.round) {
                if let OpKind::Send { mode, size, .. } = si.ops[op].kind {
                    let rel = id_of_op.get(&op).map(|id| id.wrapping_sub(start_base) & 0xFFFFF);
                    if let Some(r) = rel { if r < released { continue; } }
                    hi += size;
                    let maybe_discarded = mode == SendMode::TimeSensitive && rel.is_none() && (o.round > si.ops[op].round || o.stepped);
                    if !maybe_discarded { lo += size; }
                }
            }
            if o.sbs < lo || o.sbs > hi {
                return Some(viol("C20.exact", format!("C20.exact:{}", if o.sbs < lo { "low" } else { "high" }), format!("side {} round {} (t={} ms): send_buffer_size()={} but accepted-and-unacknowledged bytes are in [{}, {}]", side, o.round, o.t_ms, o.sbs, lo, hi)));
            }
        }
    }
    None
}

/// C13: for every pair of emission instants t1 <= t2 of one side,
/// bytes[t1,t2] <= C*((t2-t1) + RTT*) + 1472 + rounding, RTT* = largest estimate reported from the
/// round before t1 through t2.
pub fn oracle_c13(cfg: &LwCfg, tr: &Trace) -> Option<Violation> {
    for side in 0..2 {
        let c = cfg.bw[side] as f64;
        let ems: Vec<&Em> = tr.ems.iter().filter(|e| e.side == side).collect();
        if ems.is_empty() { continue; }
        // rtt per round (as reported after the step of that round)
        let mut rtt_round: Vec<f64> = vec![0.0; tr.rounds + 1];
        let mut step_round: Vec<bool> = vec![false; tr.rounds + 1];
        for o in tr.obs.iter().filter(|o| o.side == side) { rtt_round[o.round] = o.rtt.unwrap_or(0.0); step_round[o.round] = o.stepped; }
        for i in 0..ems.len() {
            let mut bytes = 0usize;
            let r0 = ems[i].round.saturating_sub(1);
            let mut rtt_max = 0.0f64; let mut rr = r0; let mut steps = 0usize;
            for j in i..ems.len() {
                bytes += ems[j].len;
                while rr <= ems[j].round { if rtt_round[rr] > rtt_max { rtt_max = rtt_round[rr]; } if step_round[rr] { steps += 1; } rr += 1; }
                let dt = (ems[j].t_ms - ems[i].t_ms) as f64 / 1000.0;
                let bound = c * (dt + rtt_max) + 1472.0 + 1.0 + if std::env::var("VERIF_C13_SLACK").is_ok() { steps as f64 } else { 0.0 };
                if bytes as f64 > bound {
                    let excess = bytes as f64 - bound;
                    let after_gap = i > 0 && false;
                    let _ = after_gap;
                    // gap before the interval: time since the previous step of this side
                    let prev_t = tr.obs.iter().filter(|o| o.side == side && o.stepped && o.round < ems[i].round).map(|o| o.t_ms).last();
                    let gap_ms = prev_t.map_or(ems[i].t_ms, |p| ems[i].t_ms - p);
                    let sig = format!("C13.interval:{}:{}", if excess <= 1472.0 { "excess<=1frame" } else { "excess>1frame" }, if gap_ms >= 1000 { "after-pause>=1s" } else { "no-pause" });
                    return Some(viol("C13.interval", sig, format!("side {} sent {} bytes between t={} ms and t={} ms (frames {}..{} of its emissions); bound C*(dt+RTT*)+1472 = {}*({:.3}+{:.3})+1472 = {:.0}; excess {:.0} B; gap before interval {} ms", side, bytes, ems[i].t_ms, ems[j].t_ms, i, j, c, dt, rtt_max, bound, excess, gap_ms)));
                }
            }
        }
    }
    None
}

/// C12: transmission behaviour per send mode, judged from the wire and from the ack frames handed
/// to the sender.
pub fn oracle_c12(cfg: &LwCfg, si: &ScriptInfo, tr: &Trace, check_resend_liveness: bool) -> Vec<Violation> {
    let mut out: Vec<Violation> = Vec::new();
    let mut push = |v: Violation, out: &mut Vec<Violation>| { if !out.iter().any(|x| x.sig == v.sig) { out.push(v); } };
    for side in 0..2 {
        let start_base = cfg.pbase[side];
        let mut op_of_id: HashMap<u32, usize> = HashMap::new();
        // (pid, frag) -> list of (em index, frame id)
        let mut tx: HashMap<(u32, u16), Vec<(usize, u32)>> = HashMap::new();
        let mut frame_em: HashMap<u32, usize> = HashMap::new(); // frame id -> em index
        for (ei, e) in tr.ems.iter().enumerate().filter(|(_, e)| e.side == side) {
            if let Some(Frame::DataFrame(df)) = &e.frame {
                frame_em.insert(df.sequence_id, ei);
                for dg in df.datagrams.iter() {
                    if dg.fragment_id == 0 { if let Some(op) = identify(si, side, dg) { op_of_id.entry(dg.sequence_id).or_insert(op); } }
                    tx.entry((dg.sequence_id, dg.fragment_id)).or_default().push((ei, df.sequence_id));
                }
            }
        }
        // acks handed to the sender: for each rx of an ack frame, which frame ids it covers and its packet base
        struct AckSeen { rx_round: usize, step_no: u32, frames: Vec<u32>, pbase_rel: u32 }
        let mut acks: Vec<AckSeen> = Vec::new();
        for r in tr.rxs.iter().filter(|r| r.side == side && r.parsed) {
            if let Some(Frame::AckFrame(af)) = &tr.ems[r.em].frame {
                let mut frames = Vec::new();
                // An ack group is processed only if every frame id it spans is still in the sender's
                // frame log (frames are forgotten after 4 RTT); groups for forgotten or unknown frames
                // are ignored as a whole, which C15 demands. The log bounds at the time the ack is
                // handed over are those after the sender's previous step plus the frames sent since.
                let log_base = tr.obs.iter().filter(|o| o.side == side && o.round < r.round).last().map_or(cfg.fbase[side], |o| o.probe.tx_frame_log_base);
                let mut next = cfg.fbase[side];
                for e in tr.ems[..].iter().filter(|e| e.side == side && (e.round < r.round || (e.round == r.round && e.step_no <= r.step_no))) { if let Some(Frame::DataFrame(df)) = &e.frame { next = df.sequence_id.wrapping_add(1); } }
                let log_len = next.wrapping_sub(log_base);
                for g in af.frame_acks.iter() {
                    let size = 32 - g.bitfield.leading_zeros();
                    let in_log = size > 0 && g.base_id.wrapping_sub(log_base) < log_len && g.base_id.wrapping_add(size - 1).wrapping_sub(log_base) < log_len;
                    if !in_log { continue; }
                    for b in 0..32 { if g.bitfield & (1 << b) != 0 { frames.push(g.base_id.wrapping_add(b)); } }
                }
                acks.push(AckSeen { rx_round: r.round, step_no: r.step_no, frames, pbase_rel: af.packet_window_base_id.wrapping_sub(start_base) & 0xFFFFF });
            }
        }
        for ((pid, frag), list) in tx.iter() {
            let op = match op_of_id.get(pid) { Some(o) => *o, None => continue };
            let (mode, sub_round) = if let OpKind::Send { mode, .. } = si.ops[op].kind { (mode, si.ops[op].round) } else { continue };
            match mode {
                SendMode::Unreliable | SendMode::TimeSensitive => {
                    if list.len() > 1 {
                        push(viol("C12.once", format!("C12.once:{}", mode_char(mode)), format!("side {}: fragment {} of {:?} packet id {} (op {}) was transmitted {} times (rounds {:?})", side, frag, mode, pid, op, list.len(), list.iter().map(|(e, _)| tr.ems[*e].round).collect::<Vec<_>>())), &mut out);
                    }
                }
                _ => {}
            }
            if mode == SendMode::TimeSensitive && *frag == 0 {
                // first appearance on the wire must be before the first step after send(): i.e. in the
                // flush of the submission round (the step's own flush)
                let first = list.iter().map(|(e, _)| &tr.ems[*e]).min_by_key(|e| (e.round, e.step_no)).unwrap();
                let step_at_send = tr.obs.iter().filter(|o| o.side == side && o.round < sub_round && o.stepped).count() as u32;
                if first.step_no > step_at_send {
                    // Was the packet taken off the send queue in time (and then held back by the
                    // flush budget or the frame window), or was it still queued after the step that
                    // should have discarded it? The send queue is FIFO, so the packet is still in it
                    // iff the queue is longer than the number of packets submitted after it.
                    let o = tr.obs.iter().filter(|o| o.side == side && o.stepped && o.round >= sub_round).next();
                    let later = |round: usize| si.ops.iter().enumerate().filter(|(i, x)| x.side == side && matches!(x.kind, OpKind::Send { .. }) && *i > op && x.round <= round).count();
                    let dequeued = o.map_or(false, |o| o.probe.send_queue_len <= later(o.round));
                    let sig = if dequeued { "C12.ts-late:dequeued-in-time-held-by-budget-or-window" } else { "C12.ts-late:still-queued-after-step" };
                    push(viol("C12.ts-late", sig.into(), format!("side {}: TimeSensitive packet id {} (op {}, submitted round {}) first reached the wire in round {} after {} step(s) following its send()", side, pid, op, sub_round, first.round, first.step_no - step_at_send)), &mut out);
                }
            }
            if mode == SendMode::Persistent || mode == SendMode::Reliable {
                // not transmitted again once an ack covering a frame that carried it has been processed,
                // nor once the receiver reported a packet window base beyond it
                let rel = pid.wrapping_sub(start_base) & 0xFFFFF;
                for (k, (ei, _fid)) in list.iter().enumerate() {
                    let e = &tr.ems[*ei];
                    for a in acks.iter() {
                        // processed strictly before this emission: handed in an earlier step of this side
                        if !(a.step_no < e.step_no) { continue; }
                        let covers = list[..k].iter().any(|(_, f)| a.frames.contains(f));
                        let moved_past = a.pbase_rel < 0x80000 && rel < a.pbase_rel;
                        if covers || moved_past {
                            push(viol("C12.after-ack", format!("C12.after-ack:{}", if covers { "frame-ack" } else { "window-base" }), format!("side {}: fragment {} of {:?} packet id {} was transmitted again in round {} although {} had been handed to the sender in round {}", side, frag, mode, pid, e.round, if covers { "an acknowledgement of a frame carrying it" } else { "a packet window base beyond it" }, a.rx_round)), &mut out);
                        }
                    }
                }
                if check_resend_liveness {
                    // at the end of a fair suffix: acknowledged, moved past, or still scheduled (sender pending)
                    // (a window base beyond the packet ends the retransmission of a Persistent packet; the receiver passes a Reliable one only
                    // after delivering it, so for a Reliable packet it counts only if the application did receive the packet)
                    let delivered = tr.dels.iter().any(|d| d.side == 1 - side && d.sub == Some(op));
                    let acked = acks.iter().any(|a| list.iter().any(|(_, f)| a.frames.contains(f)) || (a.pbase_rel < 0x80000 && rel < a.pbase_rel && (mode == SendMode::Persistent || delivered)));
                    let last = tr.obs.iter().filter(|o| o.side == side).last().unwrap();
                    if !acked && !last.pending {
                        push(viol("C12.until-ack", "C12.until-ack".into(), format!("side {}: fragment {} of {:?} packet id {} was never acknowledged, yet the sender stopped retransmitting it (nothing pending at the horizon)", side, frag, mode, pid)), &mut out);
                    }
                    // a sender that still reports something pending but has not transmitted the fragment for the last 200 s of a fair network
                    // has abandoned it just the same (the longest wait between retransmissions is one full frame at the minimum rate: 64 s)
                    let t_last_tx = list.iter().map(|(ei, _)| tr.ems[*ei].t_ms).max().unwrap_or(0);
                    if !acked && last.pending && last.t_ms > t_last_tx + 200_000 && tr.blackout.is_none() {
                        push(viol("C12.until-ack", "C12.until-ack:abandoned".into(), format!("side {}: fragment {} of {:?} packet id {} was never acknowledged and was last transmitted at t={} ms; the sender still reports data pending at t={} ms but has not retransmitted it in the {} s of loss-free network in between", side, frag, mode, pid, t_last_tx, last.t_ms, (last.t_ms - t_last_tx) / 1000)), &mut out);
                    }
                }
            }
        }
        // "retransmitted until acknowledged" needs a finite form: a fragment that is still unacknowledged is not passed over while another one
        // is transmitted again and again. Retransmission intervals grow to 4 RTT estimates and stay there, for every fragment alike, so after
        // its own last transmission no other fragment can legitimately go out six times before this one is due again.
        {
            let is_rel = |pid: &u32| op_of_id.get(pid).map_or(false, |op| matches!(si.ops[*op].kind, OpKind::Send { mode: SendMode::Reliable, .. } | OpKind::Send { mode: SendMode::Persistent, .. }));
            let heavy: Vec<(&(u32, u16), Vec<u32>)> = tx.iter().filter(|(k, l)| l.len() >= 6 && is_rel(&k.0)).map(|(k, l)| { let mut v: Vec<u32> = l.iter().map(|(e, _)| tr.ems[*e].step_no).collect(); v.sort(); (k, v) }).collect();
            if !heavy.is_empty() {
                for ((pid, frag), list) in tx.iter() {
                    if !is_rel(pid) { continue; }
                    let rel = pid.wrapping_sub(start_base) & 0xFFFFF;
                    let last_b = list.iter().map(|(e, _)| tr.ems[*e].step_no).max().unwrap();
                    let ack_b = acks.iter().filter(|a| list.iter().any(|(_, f)| a.frames.contains(f)) || (a.pbase_rel < 0x80000 && rel < a.pbase_rel)).map(|a| a.step_no).min().unwrap_or(u32::MAX);
                    for (ka, steps) in heavy.iter() {
                        if **ka == (*pid, *frag) { continue; }
                        let n = steps.iter().filter(|s| **s > last_b && **s <= ack_b).count();
                        if n >= 6 {
                            push(viol("C12.until-ack", "C12.until-ack:passed-over".into(), format!("side {}: fragment {} of packet id {} was last transmitted in step {} and never acknowledged (no ack for a frame carrying it, no window base beyond it, up to step {}), yet it was not retransmitted while fragment {} of packet id {} went out {} more times", side, frag, pid, last_b, if ack_b == u32::MAX { "the end".to_string() } else { ack_b.to_string() }, ka.1, ka.0, n)), &mut out);
                            break;
                        }
                    }
                }
            }
        }
        let _ = frame_em;
    }
    out
}

/// Identifies which submitted packet a first fragment (or whole packet) on the wire belongs to.
pub fn identify(si: &ScriptInfo, side: usize, dg: &uflow::verif::frame::Datagram) -> Option<usize> {
    if dg.fragment_id_last == 0 { return si.by_content[side].get(&dg.data[..]).copied(); }
    if dg.fragment_id == 0 && dg.data.len() >= 6 && dg.data[0] == 0xA0 | side as u8 {
        let chn = dg.data[1]; let idx = u32::from_be_bytes([dg.data[2], dg.data[3], dg.data[4], dg.data[5]]);
        return si.by_tag[side].get(&(chn, idx)).copied();
    }
    None
}
