//! Checking / counting global allocator (C06, C19). Wraps `System`. Tracking is per thread and off
//! by default (one thread-local flag test per call); inside a tracked region every block obtained
//! by the thread is entered into a side table (memory taken directly from `System`, never through
//! this allocator) with its size and alignment, every release is compared with the entry, and the
//! number of live bytes is maintained.

use std::alloc::{GlobalAlloc, Layout, System};
use std::cell::{Cell, UnsafeCell};

pub struct Checking;

#[derive(Clone, Copy)]
struct Entry { ptr: usize, size: usize, align: usize, freed: bool }

const CAP: usize = 1 << 18;

pub struct Table { entries: *mut Entry, used: usize }

#[derive(Clone, Debug, Default)]
pub struct Report {
    pub live_bytes: isize,
    pub peak_bytes: isize,
    pub allocs: u64,
    pub frees: u64,
    /// (allocated size, allocated align, released size, released align)
    pub mismatches: Vec<(usize, usize, usize, usize)>,
    /// releases of blocks that were not obtained inside the tracked region (or released twice)
    pub unknown_frees: u64,
    /// releases of a block that had already been released inside the region (quarantine mode only)
    pub double_frees: u64,
    pub table_overflow: bool,
}

thread_local! {
    static TRACK: Cell<bool> = const { Cell::new(false) };
    static TABLE: UnsafeCell<Table> = const { UnsafeCell::new(Table { entries: std::ptr::null_mut(), used: 0 }) };
    static LIVE: Cell<isize> = const { Cell::new(0) };
    static PEAK: Cell<isize> = const { Cell::new(0) };
    static ALLOCS: Cell<u64> = const { Cell::new(0) };
    static FREES: Cell<u64> = const { Cell::new(0) };
    static UNKNOWN: Cell<u64> = const { Cell::new(0) };
    static OVERFLOW: Cell<bool> = const { Cell::new(false) };
    static MISMATCH: UnsafeCell<[(usize, usize, usize, usize); 8]> = const { UnsafeCell::new([(0, 0, 0, 0); 8]) };
    static NMISMATCH: Cell<usize> = const { Cell::new(0) };
    /// quarantine mode: released blocks stay in the table (marked) and are returned to the system at the end of the region, so a
    /// second release of the same block is recognised instead of corrupting the process heap
    static QUAR: Cell<bool> = const { Cell::new(false) };
    static DOUBLE: Cell<u64> = const { Cell::new(0) };
}

fn slot(ptr: usize) -> usize { (ptr >> 4).wrapping_mul(0x9E3779B97F4A7C15usize) >> (64 - 18) }

unsafe fn table() -> *mut Entry {
    TABLE.with(|t| {
        let t = &mut *t.get();
        if t.entries.is_null() {
            t.entries = System.alloc_zeroed(Layout::array::<Entry>(CAP).unwrap()) as *mut Entry;
        }
        t.entries
    })
}

unsafe fn insert(ptr: usize, size: usize, align: usize) {
    let e = table();
    let used = TABLE.with(|t| (*t.get()).used);
    if used > CAP / 2 { OVERFLOW.with(|o| o.set(true)); return; }
    let mut i = slot(ptr);
    loop {
        let x = &mut *e.add(i);
        if x.ptr == 0 { *x = Entry { ptr, size, align, freed: false }; break; }
        i = (i + 1) & (CAP - 1);
    }
    TABLE.with(|t| (*t.get()).used += 1);
    LIVE.with(|l| { let v = l.get() + size as isize; l.set(v); PEAK.with(|p| if v > p.get() { p.set(v) }); });
    ALLOCS.with(|a| a.set(a.get() + 1));
}

/// Returns whether the block may be handed back to the system allocator now.
unsafe fn remove(ptr: usize, size: usize, align: usize, may_quarantine: bool) -> bool {
    let e = table();
    let mut i = slot(ptr);
    loop {
        let x = &mut *e.add(i);
        if x.ptr == 0 { UNKNOWN.with(|u| u.set(u.get() + 1)); return true; }
        if x.ptr == ptr { break; }
        i = (i + 1) & (CAP - 1);
    }
    if (*e.add(i)).freed { DOUBLE.with(|d| d.set(d.get() + 1)); return false; }
    let x = *e.add(i);
    if x.size != size || x.align != align {
        let n = NMISMATCH.with(|n| n.get());
        if n < 8 { MISMATCH.with(|m| (*m.get())[n] = (x.size, x.align, size, align)); }
        NMISMATCH.with(|c| c.set(n + 1));
    }
    LIVE.with(|l| l.set(l.get() - x.size as isize));
    FREES.with(|f| f.set(f.get() + 1));
    if may_quarantine && QUAR.with(|q| q.get()) { (*e.add(i)).freed = true; return false; }
    TABLE.with(|t| (*t.get()).used -= 1);
    // backward-shift deletion (linear probing without tombstones)
    let mut hole = i;
    let mut j = (i + 1) & (CAP - 1);
    loop {
        let y = *e.add(j);
        if y.ptr == 0 { break; }
        let k = slot(y.ptr);
        // move y into the hole if its ideal slot k is not cyclically within (hole, j]
        let in_range = if hole <= j { k > hole && k <= j } else { k > hole || k <= j };
        if !in_range { *e.add(hole) = y; hole = j; }
        j = (j + 1) & (CAP - 1);
    }
    (*e.add(hole)).ptr = 0;
    true
}

unsafe impl GlobalAlloc for Checking {
    unsafe fn alloc(&self, layout: Layout) -> *mut u8 {
        let p = System.alloc(layout);
        if !p.is_null() && TRACK.try_with(|t| t.get()).unwrap_or(false) { insert(p as usize, layout.size(), layout.align()); }
        p
    }
    unsafe fn alloc_zeroed(&self, layout: Layout) -> *mut u8 {
        let p = System.alloc_zeroed(layout);
        if !p.is_null() && TRACK.try_with(|t| t.get()).unwrap_or(false) { insert(p as usize, layout.size(), layout.align()); }
        p
    }
    unsafe fn dealloc(&self, ptr: *mut u8, layout: Layout) {
        if TRACK.try_with(|t| t.get()).unwrap_or(false) { if !remove(ptr as usize, layout.size(), layout.align(), true) { return; } }
        System.dealloc(ptr, layout)
    }
    unsafe fn realloc(&self, ptr: *mut u8, layout: Layout, new_size: usize) -> *mut u8 {
        let tracked = TRACK.try_with(|t| t.get()).unwrap_or(false);
        if tracked { remove(ptr as usize, layout.size(), layout.align(), false); }
        let p = System.realloc(ptr, layout, new_size);
        if tracked {
            if !p.is_null() { insert(p as usize, new_size, layout.align()); } else { insert(ptr as usize, layout.size(), layout.align()); }
        }
        p
    }
}

/// Runs `f` with tracking enabled on this thread and returns its result with the allocation report.
/// Everything `f` allocates must also be released inside `f` for `live_bytes` to return to zero.
pub fn tracked<R>(f: impl FnOnce() -> R) -> (R, Report) {
    reset();
    TRACK.with(|t| t.set(true));
    let r = f();
    TRACK.with(|t| t.set(false));
    (r, report())
}

/// Like `tracked`, with released blocks quarantined until the end of the region (double releases are counted, not executed).
pub fn tracked_quarantine<R>(f: impl FnOnce() -> R) -> (R, Report) {
    reset();
    QUAR.with(|q| q.set(true));
    TRACK.with(|t| t.set(true));
    let r = std::panic::catch_unwind(std::panic::AssertUnwindSafe(f));
    TRACK.with(|t| t.set(false));
    let rep = report();
    release_quarantine();
    QUAR.with(|q| q.set(false));
    match r { Ok(r) => (r, rep), Err(p) => std::panic::resume_unwind(p) }
}

fn release_quarantine() {
    unsafe {
        let e = table();
        for i in 0..CAP {
            let x = *e.add(i);
            if x.ptr != 0 && x.freed { System.dealloc(x.ptr as *mut u8, Layout::from_size_align_unchecked(x.size, x.align)); (*e.add(i)).ptr = 0; (*e.add(i)).freed = false; TABLE.with(|t| (*t.get()).used -= 1); }
        }
    }
}

pub fn set_tracking(on: bool) { TRACK.with(|t| t.set(on)); }
/// (layout mismatches, releases of unknown blocks, repeated releases) counted since the last reset
pub fn fault_counters() -> (u64, u64, u64) { (NMISMATCH.with(|n| n.get()) as u64, UNKNOWN.with(|u| u.get()), DOUBLE.with(|u| u.get())) }
pub fn live() -> isize { LIVE.with(|l| l.get()) }
pub fn peak() -> isize { PEAK.with(|l| l.get()) }
pub fn reset_peak() { PEAK.with(|p| p.set(LIVE.with(|l| l.get()))); }

pub fn reset() {
    TRACK.with(|t| t.set(false));
    release_quarantine();
    // the table is empty unless the previous region leaked blocks
    if TABLE.with(|t| unsafe { (*t.get()).used }) != 0 {
        unsafe { let e = table(); std::ptr::write_bytes(e, 0, CAP); }
        TABLE.with(|t| unsafe { (*t.get()).used = 0 });
    }
    LIVE.with(|l| l.set(0)); PEAK.with(|l| l.set(0)); ALLOCS.with(|l| l.set(0)); FREES.with(|l| l.set(0)); UNKNOWN.with(|l| l.set(0)); OVERFLOW.with(|l| l.set(false)); NMISMATCH.with(|l| l.set(0)); DOUBLE.with(|l| l.set(0));
}

pub fn report() -> Report {
    let was = TRACK.with(|t| t.replace(false));
    let n = NMISMATCH.with(|n| n.get());
    let mism: Vec<(usize, usize, usize, usize)> = MISMATCH.with(|m| unsafe { let a: &[(usize, usize, usize, usize); 8] = &*m.get(); a[..n.min(8)].to_vec() });
    let r = Report { live_bytes: live(), peak_bytes: peak(), allocs: ALLOCS.with(|a| a.get()), frees: FREES.with(|a| a.get()), mismatches: mism, unknown_frees: UNKNOWN.with(|u| u.get()), double_frees: DOUBLE.with(|u| u.get()), table_overflow: OVERFLOW.with(|o| o.get()) };
    TRACK.with(|t| t.set(was));
    r
}
