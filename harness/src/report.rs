//! Evidence files, replay artefacts, known findings, exit codes.

use crate::explore::*;
use serde_json::{json, Value};
use std::sync::atomic::Ordering;
use std::sync::Arc;

pub const VERIF_DIR: &str = "/verif";
/// Where evidence and replay files are written: /verif, or a scratch directory for experiments (VERIF_OUT).
pub fn out_dir() -> String { std::env::var("VERIF_OUT").unwrap_or_else(|_| VERIF_DIR.to_string()) }

#[derive(Clone, Debug)]
pub struct KnownFinding {
    pub property: String,
    pub status: String, // "open" | "fixed"
    pub sig: String,    // exact signature of the failing case as produced by the oracle
    pub text: String,
}

pub fn load_known(property: &str) -> Vec<KnownFinding> {
    let path = format!("{}/KNOWN_FINDINGS.json", VERIF_DIR);
    let mut out = Vec::new();
    let txt = match std::fs::read_to_string(&path) { Ok(t) => t, Err(_) => return out };
    let v: Value = match serde_json::from_str(&txt) { Ok(v) => v, Err(e) => { eprintln!("machinery: cannot parse {}: {}", path, e); std::process::exit(2); } };
    if let Some(arr) = v.get("findings").and_then(|f| f.as_array()) {
        for f in arr {
            let p = f.get("property").and_then(|x| x.as_str()).unwrap_or("");
            if p != property { continue; }
            out.push(KnownFinding {
                property: p.to_string(),
                status: f.get("status").and_then(|x| x.as_str()).unwrap_or("open").to_string(),
                sig: f.get("sig").and_then(|x| x.as_str()).unwrap_or("").to_string(),
                text: f.get("text").and_then(|x| x.as_str()).unwrap_or("").to_string(),
            });
        }
    }
    out
}

pub fn known_matcher(known: &[KnownFinding]) -> Arc<dyn Fn(&Violation) -> bool + Send + Sync> {
    let sigs: Vec<String> = known.iter().filter(|k| k.status == "open").map(|k| k.sig.clone()).collect();
    Arc::new(move |v: &Violation| sigs.iter().any(|s| *s == v.sig))
}

pub struct CheckCtx {
    pub property: String,
    pub tier: String,
    pub seed: u64,
    pub level: &'static str,
    pub threads: usize,
    pub known: Vec<KnownFinding>,
    pub t0: std::time::Instant,
}

pub fn tier_from_env(arg: Option<&str>) -> String {
    let t = arg.map(|s| s.to_string()).or_else(|| std::env::var("VERIF_TIER").ok()).unwrap_or_else(|| "quick".into());
    if t == "thorough" { "thorough".into() } else { "quick".into() }
}

pub fn write_replay(property: &str, f: &Found) -> String {
    let dir = format!("{}/replays/{}", out_dir(), property);
    let _ = std::fs::create_dir_all(&dir);
    let h = hash_bytes(hash_bytes(0xcbf29ce484222325, f.scenario.as_bytes()), &f.choices);
    let path = format!("{}/{:016x}.json", dir, h);
    let v = json!({
        "property": property,
        "scenario": f.scenario,
        "choices": f.choices,
        "deviations": f.deviations,
        "clause": f.violation.clause,
        "sig": f.violation.sig,
        "detail": f.violation.detail,
        "replay": format!("cd /verif && ./check --replay {}", path),
    });
    let _ = std::fs::write(&path, serde_json::to_string_pretty(&v).unwrap());
    path
}

pub struct Summary {
    pub rule: String,
    pub bounds: Value,
    pub assumptions: Vec<String>,
    pub witness_names: Vec<&'static str>,
    pub extra: Value,
    pub exhaustive: bool,
}

/// Writes evidence, prints the verdict lines and returns the process exit code.
pub fn finish(ctx: &CheckCtx, ex: &Explorer, sum: Summary) -> i32 {
    let s = &ex.stats;
    let wall = ctx.t0.elapsed().as_secs_f64();
    let execs = s.executions.load(Ordering::Relaxed);
    let outcomes = s.outcomes.lock().unwrap().len();
    let states = s.states.lock().unwrap().len();
    let found = s.found.lock().unwrap();
    let wit = s.witnesses.load(Ordering::Relaxed);
    let mut wit_hit = Vec::new(); let mut wit_miss = Vec::new();
    for (i, n) in sum.witness_names.iter().enumerate() { if *n == "-" { continue; } if wit & (1u64 << i) != 0 { wit_hit.push(*n); } else { wit_miss.push(*n); } }
    let capped = s.capped.load(Ordering::Relaxed);
    let mut samples: Vec<Value> = s.samples.lock().unwrap().iter().map(|x| json!(x)).collect();
    if samples.is_empty() { samples.push(json!(format!("(no sample recorded; {} executions)", execs))); }
    let known_hits = ex.known_hits.lock().unwrap();
    let panic_samples: Vec<Value> = s.panic_samples.lock().unwrap().iter().take(10).map(|(sc, c, m)| json!({"scenario": sc, "choices": c, "panic": m})).collect();
    let completed: Vec<Value> = s.completed_bounds.lock().unwrap().iter().map(|(n, d, e)| json!({"scenario": n, "d": d, "executions": e})).collect();
    let n_completed = completed.len();
    let completed_short: Vec<Value> = completed.into_iter().take(400).collect();
    let ev = json!({
        "property_id": ctx.property,
        "tier": ctx.tier,
        "seed": ctx.seed,
        "level": ctx.level,
        "coverage": {
            "evaluations": execs,
            "distinct_nontrivial": outcomes,
            "rule": sum.rule,
            "samples": samples,
            "states": states.max(1),
            "states_note": if s.states_capped.load(Ordering::Relaxed) { format!("distinct observable-state fingerprints, counting stopped at cap {}", STATE_CAP) } else { "distinct observable-state fingerprints (statistics only; never used to prune)".to_string() },
            "transitions": s.transitions.load(Ordering::Relaxed).max(1),
            "traces_validated_against_impl": execs,
            "traces_note": "every explored execution is an execution of the real uflow code (no separate model)",
            "exhaustive": sum.exhaustive && !capped,
            "capped": capped,
            "bounds": sum.bounds,
            "max_choice_points": s.max_points.load(Ordering::Relaxed),
            "max_deviations_used": s.max_devs.load(Ordering::Relaxed),
            "scenarios_completed": n_completed,
            "scenarios": completed_short,
            "witnesses_hit": wit_hit,
            "witnesses_missed": wit_miss,
            "executions_aborted_by_panic": s.panics.load(Ordering::Relaxed),
            "panic_samples": panic_samples,
            "known_finding_hits": known_hits.iter().map(|(k, v)| json!({"sig": k, "executions": v})).collect::<Vec<_>>(),
            "extra": sum.extra,
        },
        "assumptions": sum.assumptions,
        "wall_s": wall,
        "violations": found.len(),
    });
    let _ = std::fs::create_dir_all(format!("{}/evidence", out_dir()));
    let path = format!("{}/evidence/{}.json", out_dir(), ctx.property);
    if let Err(e) = std::fs::write(&path, serde_json::to_string_pretty(&ev).unwrap()) {
        eprintln!("machinery: cannot write {}: {}", path, e);
        return 2;
    }
    println!("[{}] tier={} executions={} distinct_outcomes={} states={} transitions={} max_points={} max_devs={} panics={} wall={:.1}s{}",
        ctx.property, ctx.tier, execs, outcomes, states, s.transitions.load(Ordering::Relaxed), s.max_points.load(Ordering::Relaxed),
        s.max_devs.load(Ordering::Relaxed), s.panics.load(Ordering::Relaxed), wall, if capped { " CAPPED (time limit; bound not completed)" } else { "" });
    if !sum.witness_names.is_empty() { println!("[{}] coverage witnesses hit {}/{}{}", ctx.property, wit_hit.len(), wit_hit.len() + wit_miss.len(), if wit_miss.is_empty() { String::new() } else { format!("; not hit: {:?}", wit_miss) }); }
    if let Some(m) = s.machinery_error.lock().unwrap().as_ref() {
        eprintln!("machinery error: {}", m);
        return 2;
    }
    for k in ctx.known.iter().filter(|k| k.status == "open") {
        let n = known_hits.get(&k.sig).copied().unwrap_or(0);
        if n > 0 { println!("KNOWN-FINDING: property={} {} [sig {} ; {} executions]", ctx.property, k.text, k.sig, n); }
    }
    if found.is_empty() {
        if s.panics.load(Ordering::Relaxed) > 0 && ctx.property != "C03" {
            println!("[{}] note: {} executions were aborted by a panic inside uflow; panics are C03's verdict, not this property's", ctx.property, s.panics.load(Ordering::Relaxed));
        }
        println!("[{}] OK", ctx.property);
        0
    } else {
        for f in found.iter() {
            let path = write_replay(&ctx.property, f);
            println!("VIOLATION property={} replay={}", ctx.property, path);
            println!("    clause={} deviations={} scenario={}", f.violation.clause, f.deviations, f.scenario);
            println!("    {}", f.violation.detail);
        }
        1
    }
}
