//! C16: frame codec round trip, rejection of malformed input, CRC detection of <= 4 bit flips.

use crate::explore::*;
use crate::lw::viol;
use crate::report::Summary;
use crate::sweep::*;
use crate::PropRun;
use serde_json::json;
use uflow::verif::crc_compute;
use uflow::verif::frame::*;
use uflow::verif::Serialize;

// ------------------------------------------------------------------------------------------------
// Independent reference codec, written from the wire format documented in frame/serial/build.rs
// and the payload size constants: exact lengths, known type byte, known error code; padding and
// unused bits are don't-care.
// ------------------------------------------------------------------------------------------------

pub fn ref_crc(data: &[u8]) -> u32 {
    // bitwise CRC, reflected polynomial 0x9960034C, initial register !0, final complement
    let mut reg: u32 = !0u32;
    for &b in data { reg ^= b as u32; for _ in 0..8 { reg = if reg & 1 != 0 { (reg >> 1) ^ 0x9960034C } else { reg >> 1 }; } }
    !reg
}
// The implementation's compute() starts from crc 0 and applies a table whose entries already
// contain the complements (extend(initial_crc) == !register form). Both must agree on every input.

fn be32(b: &[u8]) -> u32 { u32::from_be_bytes([b[0], b[1], b[2], b[3]]) }
fn be16(b: &[u8]) -> u16 { u16::from_be_bytes([b[0], b[1]]) }

pub fn ref_read(bytes: &[u8]) -> Option<Frame> {
    if bytes.len() < 5 { return None; }
    let n = bytes.len();
    if ref_crc(&bytes[..n - 4]) != be32(&bytes[n - 4..]) { return None; }
    let p = &bytes[1..n - 4];
    match bytes[0] {
        0 => { if p.len() != 1467 { return None; } Some(Frame::HandshakeSynFrame(HandshakeSynFrame { version: p[0], nonce: be32(&p[1..]), max_receive_rate: be32(&p[5..]), max_packet_size: be32(&p[9..]), max_receive_alloc: be32(&p[13..]) })) }
        1 => { if p.len() != 20 { return None; } Some(Frame::HandshakeSynAckFrame(HandshakeSynAckFrame { nonce_ack: be32(p), nonce: be32(&p[4..]), max_receive_rate: be32(&p[8..]), max_packet_size: be32(&p[12..]), max_receive_alloc: be32(&p[16..]) })) }
        2 => { if p.len() != 4 { return None; } Some(Frame::HandshakeAckFrame(HandshakeAckFrame { nonce_ack: be32(p) })) }
        3 => { if p.len() != 5 { return None; } let e = match p[4] { 0 => HandshakeErrorType::Version, 1 => HandshakeErrorType::Config, 2 => HandshakeErrorType::ServerFull, _ => return None }; Some(Frame::HandshakeErrorFrame(HandshakeErrorFrame { nonce_ack: be32(p), error: e })) }
        4 => { if !p.is_empty() { return None; } Some(Frame::DisconnectFrame(DisconnectFrame {})) }
        5 => { if !p.is_empty() { return None; } Some(Frame::DisconnectAckFrame(DisconnectAckFrame {})) }
        10 => {
            if p.len() < 5 { return None; }
            let sequence_id = be32(p); let nonce = p[4] & 0x80 != 0; let count = (p[4] & 0x7F) as usize;
            let mut q = &p[5..]; let mut datagrams = Vec::new();
            for _ in 0..count {
                if q.len() < 6 { return None; }
                let (hdr, len, dg): (usize, usize, Datagram);
                if q[0] & 0x80 == 0 {
                    // micro: 0CDDDDDD SSSSCCCC SSSSSSSS SSSSSSSS CWWWWWWW HHHHHHHH
                    hdr = 6; len = (q[0] & 0x3F) as usize;
                    if q.len() < hdr + len { return None; }
                    dg = Datagram { channel_id: ((q[0] >> 6) & 1) << 4 | (q[1] & 0x0F) | ((q[4] >> 7) & 1) << 5, sequence_id: ((q[1] as u32 >> 4) << 16) | (q[2] as u32) << 8 | q[3] as u32,
                        window_parent_lead: (q[4] & 0x7F) as u16, channel_parent_lead: q[5] as u16, fragment_id: 0, fragment_id_last: 0, data: q[hdr..hdr + len].into() };
                } else if q[0] & 0x40 == 0 {
                    // small: 10CCCCCC DDDDDDDD 0000SSSS SSSSSSSS SSSSSSSS WWWWWWWW WWWWWWWW HHHHHHHH HHHHHHHH
                    hdr = 9; if q.len() < 2 { return None; } len = q[1] as usize;
                    if q.len() < hdr + len { return None; }
                    dg = Datagram { channel_id: q[0] & 0x3F, sequence_id: ((q[2] & 0x0F) as u32) << 16 | (q[3] as u32) << 8 | q[4] as u32, window_parent_lead: be16(&q[5..]), channel_parent_lead: be16(&q[7..]), fragment_id: 0, fragment_id_last: 0, data: q[hdr..hdr + len].into() };
                } else {
                    // large: 11CCCCCC DDDDDDDD DDDDDDDD 0000SSSS SSSSSSSS SSSSSSSS W W H H F F L L
                    hdr = 14; if q.len() < 3 { return None; } len = be16(&q[1..]) as usize;
                    if q.len() < hdr + len { return None; }
                    dg = Datagram { channel_id: q[0] & 0x3F, sequence_id: ((q[3] & 0x0F) as u32) << 16 | (q[4] as u32) << 8 | q[5] as u32, window_parent_lead: be16(&q[6..]), channel_parent_lead: be16(&q[8..]), fragment_id: be16(&q[10..]), fragment_id_last: be16(&q[12..]), data: q[hdr..hdr + len].into() };
                }
                datagrams.push(dg); q = &q[hdr + len..];
            }
            if !q.is_empty() { return None; }
            Some(Frame::DataFrame(DataFrame { sequence_id, nonce, datagrams }))
        }
        11 => { if p.len() != 9 { return None; } Some(Frame::SyncFrame(SyncFrame { next_frame_id: if p[0] & 1 != 0 { Some(be32(&p[1..])) } else { None }, next_packet_id: if p[0] & 2 != 0 { Some(be32(&p[5..])) } else { None } })) }
        12 => {
            if p.len() < 10 { return None; }
            let count = be16(&p[8..]) as usize;
            if p.len() != 10 + 9 * count { return None; }
            let frame_acks = (0..count).map(|i| { let g = &p[10 + 9 * i..]; AckGroup { base_id: be32(g), bitfield: be32(&g[4..]), nonce: g[8] != 0 } }).collect();
            Some(Frame::AckFrame(AckFrame { frame_window_base_id: be32(p), packet_window_base_id: be32(&p[4..]), frame_acks }))
        }
        _ => None,
    }
}

pub fn ref_len(f: &Frame) -> usize {
    match f {
        Frame::HandshakeSynFrame(_) => 1472, Frame::HandshakeSynAckFrame(_) => 25, Frame::HandshakeAckFrame(_) => 9, Frame::HandshakeErrorFrame(_) => 10,
        Frame::DisconnectFrame(_) | Frame::DisconnectAckFrame(_) => 5, Frame::SyncFrame(_) => 14,
        Frame::AckFrame(a) => 15 + 9 * a.frame_acks.len(),
        Frame::DataFrame(d) => 10 + d.datagrams.iter().map(|g| { let l = g.data.len(); (if g.fragment_id_last == 0 && l < 64 && g.window_parent_lead < 128 && g.channel_parent_lead < 256 { 6 } else if g.fragment_id_last == 0 && l < 256 { 9 } else { 14 }) + l }).sum::<usize>(),
    }
}

fn fix_crc(b: &mut Vec<u8>) { let n = b.len(); if n >= 4 { let c = ref_crc(&b[..n - 4]); b[n - 4..].copy_from_slice(&c.to_be_bytes()); } }

/// Compares the implementation's parser with the reference on one input.
/// Set by C03, which runs the same parser sweeps with the panic oracle only.
pub static FOR_C03: std::sync::atomic::AtomicBool = std::sync::atomic::AtomicBool::new(false);

/// set by C19: the same inputs, asking only that parsing (result dropped) leaves no heap block behind and breaks no allocator rule
pub static FOR_C19: std::sync::atomic::AtomicBool = std::sync::atomic::AtomicBool::new(false);

fn check_parse(bytes: &[u8], acc: &mut Acc, what: &str) {
    acc.evals += 1;
    if FOR_C19.load(std::sync::atomic::Ordering::Relaxed) {
        use crate::alloc;
        // (a first parse outside the region lets thread-local scratch space reach its final size; the side table is emptied now and then)
        let _ = guarded(|| Frame::read(bytes));
        if acc.evals % 512 == 1 { alloc::reset(); }
        let (before, f0) = (alloc::live(), alloc::fault_counters());
        alloc::set_tracking(true);
        let r = guarded(|| { let f = Frame::read(bytes); drop(f); });
        alloc::set_tracking(false);
        let (after, f1) = (alloc::live(), alloc::fault_counters());
        if r.is_ok() {
            if after != before { acc.violation(format!("case:parse:{}", hex(bytes)), viol("C19.leak", "C19.leak:frame-read".into(), format!("parsing a {}-byte datagram ({}) and dropping the result left {} heap bytes allocated", bytes.len(), what, after - before))); }
            if f1 != f0 { acc.violation(format!("case:parse:{}", hex(bytes)), viol("C19.free", "C19.free:frame-read".into(), format!("parsing a {}-byte datagram ({}): {} releases with a wrong layout, {} of unknown blocks, {} repeated", bytes.len(), what, f1.0 - f0.0, f1.1 - f0.1, f1.2 - f0.2))); }
        }
        return;
    }
    let r = guarded(|| Frame::read(bytes));
    if FOR_C03.load(std::sync::atomic::Ordering::Relaxed) {
        if let Err(p) = r {
            acc.panics += 1;
            let loc = p.rsplit(" @ ").next().unwrap_or("").to_string();
            acc.violation(format!("case:parse:{}", hex(bytes)), viol("C03.panic", format!("C03.panic:frame-read:{}", loc), format!("Frame::read (called by Client::step / Server::step on every datagram) panicked on a {}-byte input ({}): {}", bytes.len(), what, p)));
        }
        return;
    }
    let expect = ref_read(bytes);
    match r {
        Err(p) => { acc.panics += 1; acc.violation(format!("case:parse:{}", hex(bytes)), viol("C16.parse-panic", "C16.parse-panic".into(), format!("Frame::read panicked on a {}-byte input ({}): {}", bytes.len(), what, p))); }
        Ok(got) => {
            acc.outcomes.insert(hash_bytes(0x16, format!("{:?}", got.as_ref().map(|f| std::mem::discriminant(f))).as_bytes()) ^ (bytes.len() as u64) << 40);
            if got != expect {
                let sig = match (&got, &expect) { (Some(_), None) => "C16.parse:accepts-malformed", (None, Some(_)) => "C16.parse:rejects-wellformed", _ => "C16.parse:different-frame" };
                acc.violation(format!("case:parse:{}", hex(bytes)), viol("C16.parse", sig.into(), format!("Frame::read and the reference parser disagree on a {}-byte input ({}): implementation {:?}, reference {:?}", bytes.len(), what, got.as_ref().map(short), expect.as_ref().map(short))));
            }
        }
    }
}

fn short(f: &Frame) -> String { let s = format!("{:?}", f); if s.len() > 160 { format!("{}...", &s[..160]) } else { s } }

fn check_roundtrip(f: &Frame, acc: &mut Acc) {
    acc.evals += 1;
    let r = guarded(|| { let b = f.write(); let g = Frame::read(&b); (b, g) });
    match r {
        Err(p) => { acc.panics += 1; acc.violation(format!("case:roundtrip:{}", short(f)), viol("C16.roundtrip-panic", "C16.roundtrip-panic".into(), format!("write/read panicked for {}: {}", short(f), p))); }
        Ok((b, g)) => {
            acc.outcomes.insert(hash_bytes(0x17, &b[..b.len().min(24)]) ^ (b.len() as u64) << 32);
            if g.as_ref() != Some(f) { acc.violation(format!("case:parse:{}", hex(&b)), viol("C16.roundtrip", "C16.roundtrip".into(), format!("read(write(f)) != f for f = {}; got {:?}", short(f), g.as_ref().map(short)))); }
            if b.len() != ref_len(f) { acc.violation(format!("case:parse:{}", hex(&b)), viol("C16.length", "C16.length".into(), format!("write() produced {} bytes, the documented format needs {} for {}", b.len(), ref_len(f), short(f)))); }
            if ref_read(&b).as_ref() != Some(f) { acc.violation(format!("case:parse:{}", hex(&b)), viol("C16.roundtrip", "C16.roundtrip:reference".into(), format!("the bytes written for {} do not parse back to it under the documented format", short(f)))); }
        }
    }
}

pub fn sample_frames() -> Vec<Frame> {
    let dg = |seq: u32, ch: u8, w: u16, h: u16, f: u16, l: u16, n: usize| Datagram { sequence_id: seq, channel_id: ch, window_parent_lead: w, channel_parent_lead: h, fragment_id: f, fragment_id_last: l, data: (0..n).map(|i| (i * 7 + 3) as u8).collect::<Vec<u8>>().into() };
    vec![
        Frame::HandshakeSynFrame(HandshakeSynFrame { version: 3, nonce: 0x01020304, max_receive_rate: 0x11121314, max_packet_size: 0x21222324, max_receive_alloc: 0x31323334 }),
        Frame::HandshakeSynAckFrame(HandshakeSynAckFrame { nonce_ack: 0x01020304, nonce: 0x0a0b0c0d, max_receive_rate: 0x11121314, max_packet_size: 0x21222324, max_receive_alloc: 0x31323334 }),
        Frame::HandshakeAckFrame(HandshakeAckFrame { nonce_ack: 0xfffefdfc }),
        Frame::HandshakeErrorFrame(HandshakeErrorFrame { nonce_ack: 0x01020304, error: HandshakeErrorType::Config }),
        Frame::DisconnectFrame(DisconnectFrame {}), Frame::DisconnectAckFrame(DisconnectAckFrame {}),
        Frame::DataFrame(DataFrame { sequence_id: 0x7f000001, nonce: true, datagrams: vec![dg(5, 3, 1, 1, 0, 0, 10), dg(0xFFFFF, 63, 300, 300, 0, 0, 100), dg(7, 17, 2, 2, 1, 2, 300)] }),
        Frame::SyncFrame(SyncFrame { next_frame_id: Some(0x01020304), next_packet_id: Some(0x000a0b0c) }),
        Frame::AckFrame(AckFrame { frame_window_base_id: 0x01020304, packet_window_base_id: 0x00050607, frame_acks: vec![AckGroup { base_id: 9, bitfield: 0x80000001, nonce: true }, AckGroup { base_id: 77, bitfield: 1, nonce: false }] }),
        // (indices 0..8 are referred to by number below: new samples go after them)
        // data frames ending in a datagram of each header format (micro / small / large), short enough that truncation at every length
        // cuts through every header
        Frame::DataFrame(DataFrame { sequence_id: 0x10, nonce: false, datagrams: vec![dg(9, 40, 200, 200, 0, 0, 70), dg(5, 3, 1, 1, 0, 0, 10)] }),
        Frame::DataFrame(DataFrame { sequence_id: 0x11, nonce: true, datagrams: vec![dg(5, 3, 1, 1, 0, 0, 10), dg(9, 40, 200, 200, 0, 0, 70)] }),
        Frame::DataFrame(DataFrame { sequence_id: 0x12, nonce: true, datagrams: vec![dg(9, 40, 200, 200, 0, 0, 70), dg(7, 17, 2, 2, 1, 2, 30)] }),
    ]
}

/// Section (b): Frame::read on enumerated inputs (used by C16 against the reference parser and by C03 with the panic oracle).
pub fn parse_units(quick: bool) -> Vec<Unit> {
    let mut units: Vec<Unit> = Vec::new();
    // ---- (b) parsing against the reference parser
    // every payload of length <= L after every type byte, CRC valid
    let maxlen = if quick { 1 } else { 2 };
    for t0 in 0..16u32 {
        units.push(Box::new(move |acc: &mut Acc| {
            for t in (t0 * 16)..(t0 * 16 + 16) {
                for len in 0..=maxlen {
                    let total = 256u32.pow(len as u32);
                    for v in 0..total {
                        let mut b = vec![t as u8]; for k in 0..len { b.push((v >> (8 * k)) as u8); } b.extend_from_slice(&[0; 4]); fix_crc(&mut b);
                        check_parse(&b, acc, "type byte + short payload, valid CRC");
                    }
                }
            }
            acc.sample(format!("parse: every payload of <= {} bytes after type bytes {}..{} with a valid CRC", maxlen, t0 * 16, t0 * 16 + 15));
        }));
    }
    // every single-byte substitution, truncation and extension of one sample frame per type (CRC re-fixed), plus raw (CRC not fixed)
    for (fi, f) in sample_frames().into_iter().enumerate() {
        units.push(Box::new(move |acc: &mut Acc| {
            let b0 = f.write().to_vec();
            let body = b0.len() - 4;
            for pos in 0..body { for v in 0..=255u8 { if v == b0[pos] { continue; } let mut b = b0.clone(); b[pos] = v; fix_crc(&mut b); check_parse(&b, acc, "one byte substituted, CRC re-fixed"); } }
            for cut in 1..=body.min(700) { let mut b = b0[..body - cut].to_vec(); b.extend_from_slice(&[0; 4]); fix_crc(&mut b); check_parse(&b, acc, "truncated, CRC re-fixed"); }
            for cut in 1..=b0.len().min(30) { check_parse(&b0[..b0.len() - cut], acc, "truncated, CRC not fixed"); }
            for ext in 1..=16usize { for fill in [0u8, 0xFF, 0x0A] { let mut b = b0[..body].to_vec(); b.extend(std::iter::repeat(fill).take(ext)); b.extend_from_slice(&[0; 4]); fix_crc(&mut b); check_parse(&b, acc, "extended, CRC re-fixed"); } }
            for ext in 1..=8usize { let mut b = b0.clone(); b.extend(std::iter::repeat(0u8).take(ext)); check_parse(&b, acc, "trailing bytes after the CRC"); }
            acc.sample(format!("parse: all single-byte substitutions / truncations / extensions of sample frame #{} ({} bytes)", fi, b0.len()));
        }));
    }
    units.push(Box::new(move |acc: &mut Acc| {
        for len in 0..=1472usize { for fill in [0u8, 0xFF] { let b = vec![fill; len]; check_parse(&b, acc, "constant bytes"); let mut c = b.clone(); if len >= 5 { fix_crc(&mut c); check_parse(&c, acc, "constant bytes, valid CRC"); } } }
        // data frames whose declared datagram lengths run past the end / count mismatches
        for count in [0u8, 1, 2, 127] { for declared in [0usize, 1, 63, 64, 300] { for have in [0usize, 1, 62, 63, 64, 299, 300, 301] {
            for class in 0..3 {
                let mut b = vec![10u8, 0, 0, 0, 7, count];
                match class { 0 => b.extend_from_slice(&[(declared & 0x3F) as u8, 0, 0, 1, 0, 0]), 1 => b.extend_from_slice(&[0x80, declared as u8, 0, 0, 1, 0, 0, 0, 0]), _ => b.extend_from_slice(&[0xC0, (declared >> 8) as u8, declared as u8, 0, 0, 1, 0, 0, 0, 0, 0, 0, 0, 0]) }
                b.extend(std::iter::repeat(0x55u8).take(have)); b.extend_from_slice(&[0; 4]); fix_crc(&mut b);
                check_parse(&b, acc, "data frame with inconsistent lengths");
            }
        } } }
        for count in [0u16, 1, 2, 161, 162, 65535] { for have in [0usize, 1, 2, 161, 162] { for extra in [0usize, 1, 8, 9] {
            let mut b = vec![12u8, 0, 0, 0, 1, 0, 0, 0, 2, (count >> 8) as u8, count as u8]; b.extend(std::iter::repeat(0x01u8).take(9 * have + extra)); b.extend_from_slice(&[0; 4]); fix_crc(&mut b);
            check_parse(&b, acc, "ack frame with inconsistent group count");
        } } }
        acc.sample("parse: 0..1472 bytes of 0x00 / 0xFF with and without valid CRC; data and ack frames with inconsistent counts and lengths".into());
    }));
    units
}

pub fn build(quick: bool) -> PropRun {
    let mut units: Vec<Unit> = parse_units(quick);
    let u32s = [0u32, 1, 0xFFFF_FFFF];
    // ---- (a) round trip over boundary values
    units.push(Box::new(move |acc: &mut Acc| {
        for &v in &[0u8, 3, 255] { for &n in &u32s { for &r in &u32s { for &p in &u32s { for &a in &u32s {
            check_roundtrip(&Frame::HandshakeSynFrame(HandshakeSynFrame { version: v, nonce: n, max_receive_rate: r, max_packet_size: p, max_receive_alloc: a }), acc);
        } } } } }
        for &x in &u32s { for &n in &u32s { for &r in &u32s { for &p in &u32s { for &a in &u32s {
            check_roundtrip(&Frame::HandshakeSynAckFrame(HandshakeSynAckFrame { nonce_ack: x, nonce: n, max_receive_rate: r, max_packet_size: p, max_receive_alloc: a }), acc);
        } } } } }
        for &n in &u32s {
            check_roundtrip(&Frame::HandshakeAckFrame(HandshakeAckFrame { nonce_ack: n }), acc);
            for e in [HandshakeErrorType::Version, HandshakeErrorType::Config, HandshakeErrorType::ServerFull] { check_roundtrip(&Frame::HandshakeErrorFrame(HandshakeErrorFrame { nonce_ack: n, error: e }), acc); }
        }
        check_roundtrip(&Frame::DisconnectFrame(DisconnectFrame {}), acc); check_roundtrip(&Frame::DisconnectAckFrame(DisconnectAckFrame {}), acc);
        let opt = [None, Some(0u32), Some(1), Some(0xFFFF_FFFF)];
        for a in opt { for b in opt { check_roundtrip(&Frame::SyncFrame(SyncFrame { next_frame_id: a, next_packet_id: b }), acc); } }
        let groups = [AckGroup { base_id: 0, bitfield: 0, nonce: false }, AckGroup { base_id: 0xFFFF_FFFF, bitfield: 0xFFFF_FFFF, nonce: true }, AckGroup { base_id: 1, bitfield: 0x8000_0001, nonce: true }];
        for &fb in &u32s { for &pb in &u32s { for &cnt in &[0usize, 1, 2, 3, 161, 162, 400] {
            for rot in 0..3 { let fa: Vec<AckGroup> = (0..cnt).map(|i| groups[(i + rot) % 3].clone()).collect(); check_roundtrip(&Frame::AckFrame(AckFrame { frame_window_base_id: fb, packet_window_base_id: pb, frame_acks: fa }), acc); }
        } } }
        acc.sample("round trip: SYN/SYN-ACK fields over {0,1,2^32-1}^5, sync modes 0-3, ack frames with 0,1,2,3,161,162,400 groups".into());
    }));
    // single datagrams over the full boundary grid, all three encodings and their thresholds
    let seqs = [0u32, 1, 0xFFFFF]; let chans = [0u8, 15, 16, 31, 32, 63]; let wl = [0u16, 127, 128, 255, 256, 65535]; let hl = [0u16, 255, 256, 65535];
    let frags = [(0u16, 0u16), (0, 1), (1, 1), (0, 65535), (65535, 65535)]; let lens = [0usize, 1, 63, 64, 255, 256, 1447, 1448];
    for &ch in &chans {
        units.push(Box::new(move |acc: &mut Acc| {
            for &seq in &seqs { for &w in &wl { for &h in &hl { for &(f, l) in &frags { for &n in &lens {
                let d = Datagram { sequence_id: seq, channel_id: ch, window_parent_lead: w, channel_parent_lead: h, fragment_id: f, fragment_id_last: l, data: (0..n).map(|i| (i ^ (i >> 8)) as u8).collect::<Vec<u8>>().into() };
                for (fs, nonce) in [(0u32, false), (0xFFFF_FFFF, true)] { check_roundtrip(&Frame::DataFrame(DataFrame { sequence_id: fs, nonce, datagrams: vec![d.clone()] }), acc); }
            } } } } }
            acc.sample(format!("round trip: single-datagram data frames, channel {}, ids {:?}, leads {:?}x{:?}, fragments {:?}, lengths {:?}", ch, seqs, wl, hl, frags, lens));
        }));
    }
    // multi-datagram frames: 0..127 datagrams, all sequences of encodings of length <= 3, and mixes
    units.push(Box::new(move |acc: &mut Acc| {
        let mk = |class: usize, k: usize| -> Datagram { match class {
            0 => Datagram { sequence_id: k as u32, channel_id: (k % 64) as u8, window_parent_lead: (k % 128) as u16, channel_parent_lead: (k % 256) as u16, fragment_id: 0, fragment_id_last: 0, data: vec![k as u8; k % 64].into() },
            1 => Datagram { sequence_id: 0xFFFFF - k as u32, channel_id: (k % 64) as u8, window_parent_lead: 128 + k as u16, channel_parent_lead: 256 + k as u16, fragment_id: 0, fragment_id_last: 0, data: vec![k as u8; 64 + k % 192].into() },
            _ => Datagram { sequence_id: 0x80000 + k as u32, channel_id: (k % 64) as u8, window_parent_lead: k as u16, channel_parent_lead: k as u16 * 2, fragment_id: k as u16, fragment_id_last: 2 * k as u16 + 1, data: vec![k as u8; 256 + k % 7].into() } } };
        for cnt in 0..=127usize { for base in 0..3 { let v: Vec<Datagram> = (0..cnt).map(|k| mk((k + base) % 3, k)).collect(); check_roundtrip(&Frame::DataFrame(DataFrame { sequence_id: cnt as u32, nonce: cnt % 2 == 0, datagrams: v }), acc); } }
        for a in 0..3 { for b in 0..3 { for c in 0..3 { check_roundtrip(&Frame::DataFrame(DataFrame { sequence_id: 9, nonce: true, datagrams: vec![mk(a, 1), mk(b, 2), mk(c, 3)] }), acc); } } }
        for cnt in [1usize, 2, 127] { let v: Vec<Datagram> = (0..cnt).map(|k| mk(0, k * 0)).map(|mut d| { d.data = vec![].into(); d }).collect(); check_roundtrip(&Frame::DataFrame(DataFrame { sequence_id: 1, nonce: false, datagrams: v }), acc); }
        acc.sample("round trip: data frames with 0..127 datagrams cycling micro/small/large encodings".into());
    }));
    let maxlen = if quick { 1 } else { 2 };
    // ---- (c) CRC: direct enumeration of 1..k flipped bits over control frames through the real Frame::read
    let direct: Vec<(Frame, usize)> = if quick {
        vec![(sample_frames()[4].clone(), 4), (sample_frames()[2].clone(), 4), (sample_frames()[3].clone(), 4), (sample_frames()[7].clone(), 4), (sample_frames()[1].clone(), 3)]
    } else {
        vec![(sample_frames()[4].clone(), 4), (sample_frames()[5].clone(), 4), (sample_frames()[2].clone(), 4), (sample_frames()[3].clone(), 4), (sample_frames()[7].clone(), 4), (sample_frames()[1].clone(), 4),
             (Frame::DataFrame(DataFrame { sequence_id: 5, nonce: true, datagrams: vec![Datagram { sequence_id: 9, channel_id: 1, window_parent_lead: 0, channel_parent_lead: 0, fragment_id: 0, fragment_id_last: 0, data: vec![0xA5; 24].into() }] }), 4),
             (sample_frames()[8].clone(), 3), (sample_frames()[6].clone(), 2)]
    };
    // the connection request is the one control frame that always has the full frame length (it is padded): every single bit (thorough: every
    // pair of bits) of it, padding included, fed to Frame::read itself
    let mut direct = direct;
    direct.push((Frame::HandshakeSynFrame(HandshakeSynFrame { version: uflow::PROTOCOL_VERSION, nonce: 0x1234_5678, max_receive_rate: 1_000_000, max_packet_size: 65_536, max_receive_alloc: 1_000_000 }), if quick { 1 } else { 2 }));
    for (f, k) in direct {
        let b0 = f.write().to_vec(); let nbits = b0.len() * 8;
        // split by first flipped bit
        let chunks = 16usize;
        for c in 0..chunks {
            let b0 = b0.clone();
            units.push(Box::new(move |acc: &mut Acc| {
                let mut b = b0.clone();
                let mut n = 0u64; let mut undetected: Option<Vec<usize>> = None;
                let mut rec = |b: &mut Vec<u8>, flips: &[usize]| { n += 1; if Frame::read(b).is_some() { undetected.get_or_insert(flips.to_vec()); } };
                for i in (c..nbits).step_by(chunks) {
                    b[i / 8] ^= 1 << (i % 8); rec(&mut b, &[i]);
                    if k >= 2 { for j in i + 1..nbits { b[j / 8] ^= 1 << (j % 8); rec(&mut b, &[i, j]);
                        if k >= 3 { for l in j + 1..nbits { b[l / 8] ^= 1 << (l % 8); rec(&mut b, &[i, j, l]);
                            if k >= 4 { for m in l + 1..nbits { b[m / 8] ^= 1 << (m % 8); rec(&mut b, &[i, j, l, m]); b[m / 8] ^= 1 << (m % 8); } }
                            b[l / 8] ^= 1 << (l % 8); } }
                        b[j / 8] ^= 1 << (j % 8); } }
                    b[i / 8] ^= 1 << (i % 8);
                }
                acc.evals += n; acc.outcomes.insert(0xC3C0 + (nbits as u64) * 8 + k as u64);
                if let Some(fl) = undetected { let mut x = b0.clone(); for i in fl.iter() { x[i / 8] ^= 1 << (i % 8); } acc.violation(format!("case:parse-must-reject:{}", hex(&x)), viol("C16.crc", "C16.crc:direct".into(), format!("a {}-byte frame altered in bit positions {:?} is accepted by Frame::read", b0.len(), fl))); }
                if c == 0 { acc.sample(format!("crc: every pattern of 1..{} flipped bits over a {}-byte frame fed to Frame::read", k, b0.len())); }
            }));
        }
    }
    // ---- (c') CRC, full frame length, through single-bit syndromes of the real crc::compute
    let thorough = !quick;
    units.push(Box::new(move |acc: &mut Acc| { crc_full_length(acc, thorough); }));
    PropRun { level: "model_checking", scenarios: vec![], units, replay_case: Some(replay_case), summary: Summary {
        rule: "exhaustive input enumeration: (a) round trip of frames over boundary values of every field and all three datagram encodings, 0..127 datagrams, 0..400 ack groups; (b) Frame::read vs an independent reference parser on every short payload after every type byte, every single-byte substitution / extension and truncation at every length (CRC re-fixed) of sample frames of every type and datagram header format, constant fills of every length 0..1472; (c) every pattern of <= 4 flipped bits: directly on control frames, and for all 11776 bit positions of a full-size frame through single-bit syndromes of the real crc::compute (affinity of compute checked exhaustively on its table); distinct = distinct outcome class".into(),
        bounds: json!({"short_payload_len": maxlen, "crc_direct": if quick { "<=4 bits on 5/9/10/14-byte frames, <=3 bits on the 25-byte SYN-ACK" } else { "<=4 bits on all control frames and a 44-byte data frame, <=3 on a 33-byte ack frame" }, "crc_full_length_bits": 11776}),
        assumptions: vec!["(c) full length: an undetected pattern of weight <= 4 exists iff some <= 4 single-bit syndromes XOR to zero; this needs crc::compute to be affine over GF(2), which is verified exhaustively on its 256-entry table (the byte step is a shift XOR a table lookup) and cross-checked by recomputing syndromes on three base messages and by feeding every weight-1 (thorough: and weight-2) pattern of a maximum-size frame to Frame::read".into(),
                          "representable frame = field values within their wire ranges (20-bit packet ids, channel < 64, <= 127 datagrams, fragment id 0 when last id is 0)".into()],
        witness_names: vec![], extra: json!({}), exhaustive: true } }
}

fn crc_full_length(acc: &mut Acc, thorough: bool) {
    // affinity of the table: T[a^b] ^ T[0] == T[a] ^ T[b] for all a, b  (T[x] = compute([x]))
    let t: Vec<u32> = (0..256).map(|x| crc_compute(&[x as u8])).collect();
    for a in 0..256usize { for b in 0..256usize { acc.evals += 1; if t[a ^ b] ^ t[0] != t[a] ^ t[b] { acc.violation("case:crc-affinity".into(), viol("C16.crc", "C16.crc:not-affine".into(), format!("crc::compute is not affine over GF(2): T[{a}^{b}]^T[0] != T[{a}]^T[{b}]; the syndrome argument does not apply"))); return; } } }
    // agreement with the independent bitwise CRC on assorted inputs
    for len in [0usize, 1, 2, 5, 9, 64, 1468] { for fill in [0u8, 0xFF, 0x5A] { let m: Vec<u8> = (0..len).map(|i| fill ^ (i as u8).wrapping_mul(31)).collect(); acc.evals += 1; if crc_compute(&m) != ref_crc(&m) { acc.violation("case:crc-ref".into(), viol("C16.crc", "C16.crc:differs-from-polynomial".into(), format!("crc::compute differs from the bitwise CRC of the documented polynomial on a {}-byte message", len))); return; } } }
    let nbytes = 1468usize;
    let bases: Vec<Vec<u8>> = vec![vec![0u8; nbytes], (0..nbytes).map(|i| (i * 131 + 7) as u8).collect(), vec![0xFF; nbytes]];
    let mut syn_all: Vec<Vec<u32>> = Vec::new();
    for base in bases.iter().take(if thorough { 3 } else { 2 }) {
        let c0 = crc_compute(base);
        let mut syn: Vec<u32> = Vec::with_capacity(nbytes * 8 + 32);
        let mut m = base.clone();
        for i in 0..nbytes * 8 { m[i / 8] ^= 1 << (i % 8); syn.push(crc_compute(&m) ^ c0); m[i / 8] ^= 1 << (i % 8); acc.evals += 1; }
        // the 32 bits of the CRC field itself: flipping one changes the stored value by exactly that bit (big-endian bytes)
        for byte in 0..4 { for bit in 0..8 { syn.push(1u32 << (8 * (3 - byte) + bit)); } }
        syn_all.push(syn);
    }
    for s in syn_all.iter().skip(1) { if *s != syn_all[0] { acc.violation("case:crc-syndromes".into(), viol("C16.crc", "C16.crc:syndromes-depend-on-message".into(), "single-bit syndromes differ between base messages although compute() was found affine".into())); return; } }
    let syn = &syn_all[0];
    let n = syn.len();
    // weight 1 and 2
    if let Some(i) = syn.iter().position(|&s| s == 0) { acc.violation(format!("case:crc-bits:{}", i), viol("C16.crc", "C16.crc:weight1".into(), format!("flipping bit {} of a 1472-byte frame leaves the CRC check satisfied", i))); return; }
    let mut single: Vec<(u32, u32)> = syn.iter().enumerate().map(|(i, &s)| (s, i as u32)).collect();
    single.sort_unstable();
    if let Some(w) = single.windows(2).find(|w| w[0].0 == w[1].0) { acc.violation(format!("case:crc-bits:{},{}", w[0].1, w[1].1), viol("C16.crc", "C16.crc:weight2".into(), format!("flipping bits {} and {} of a 1472-byte frame is undetected", w[0].1, w[1].1))); return; }
    // weight 3 and 4: all pairs, sorted
    let mut pairs: Vec<u32> = Vec::with_capacity(n * (n - 1) / 2);
    for i in 0..n { let si = syn[i]; for j in i + 1..n { pairs.push(si ^ syn[j]); } }
    acc.evals += pairs.len() as u64;
    pairs.sort_unstable();
    let singles_sorted: Vec<u32> = single.iter().map(|x| x.0).collect();
    for p in pairs.windows(2) { if p[0] == p[1] {
        // find the two pairs for the report
        let v = p[0]; let mut found: Vec<(usize, usize)> = Vec::new();
        'o: for i in 0..n { for j in i + 1..n { if syn[i] ^ syn[j] == v { found.push((i, j)); if found.len() == 2 { break 'o; } } } }
        acc.violation(format!("case:crc-bits:{:?}", found), viol("C16.crc", "C16.crc:weight4".into(), format!("flipping the four bits {:?} of a 1472-byte frame is undetected", found))); return; } }
    let mut it = 0usize;
    for p in pairs.iter() { while it < singles_sorted.len() && singles_sorted[it] < *p { it += 1; } if it < singles_sorted.len() && singles_sorted[it] == *p { acc.violation("case:crc-weight3".into(), viol("C16.crc", "C16.crc:weight3".into(), format!("three bit flips with syndrome {:08x} cancel out on a 1472-byte frame", p))); return; } }
    acc.outcomes.insert(0xCCCC_0000 + n as u64); acc.outcomes.insert(0xCCCC_FFFF);
    // shorter frames are suffixes: the syndrome of a bit depends only on its distance from the end
    let lens: Vec<usize> = if thorough { (5..=1472).collect() } else { vec![5, 6, 9, 10, 14, 25, 26, 63, 64, 65, 100, 255, 256, 257, 500, 511, 512, 513, 777, 1000, 1023, 1024, 1025, 1400, 1446, 1447, 1448, 1460, 1469, 1470, 1471, 1472] };
    for &l in lens.iter() {
        let body = l - 4; let m: Vec<u8> = (0..body).map(|i| (i * 17 + l) as u8).collect(); let c0 = crc_compute(&m);
        let probes: Vec<usize> = if thorough { (0..body * 8).step_by(((body * 8) / 64).max(1)).chain([0, body * 8 - 1].into_iter()).collect() } else { vec![0, 1, 7, 8, (body * 8) / 2, body * 8 - 1] };
        for &i in probes.iter() { if i >= body * 8 { continue; } let mut x = m.clone(); x[i / 8] ^= 1 << (i % 8); acc.evals += 1;
            let expect = syn[(nbytes - body) * 8 + i];
            if crc_compute(&x) ^ c0 != expect { acc.violation(format!("case:crc-suffix:{}:{}", l, i), viol("C16.crc", "C16.crc:suffix".into(), format!("the syndrome of bit {} of a {}-byte frame differs from that of the same distance from the end in a full-size frame", i, l))); return; } }
    }
    // direct confirmation on a maximum-size frame through Frame::read: every weight-1 pattern (thorough: every weight-2 pattern with the first bit in the first 64 bytes)
    let f = Frame::HandshakeSynFrame(HandshakeSynFrame { version: 3, nonce: 1, max_receive_rate: 2, max_packet_size: 3, max_receive_alloc: 4 });
    let mut b = f.write().to_vec(); let nb = b.len() * 8;
    for i in 0..nb { b[i / 8] ^= 1 << (i % 8); acc.evals += 1; if Frame::read(&b).is_some() { acc.violation(format!("case:parse-must-reject:{}", hex(&b)), viol("C16.crc", "C16.crc:direct".into(), format!("a 1472-byte frame with bit {} flipped is accepted", i))); return; }
        if thorough && i < 64 { for j in (i + 1..nb).step_by(3) { b[j / 8] ^= 1 << (j % 8); acc.evals += 1; if Frame::read(&b).is_some() { acc.violation(format!("case:parse-must-reject:{}", hex(&b)), viol("C16.crc", "C16.crc:direct".into(), format!("a 1472-byte frame with bits {} and {} flipped is accepted", i, j))); } b[j / 8] ^= 1 << (j % 8); } }
        b[i / 8] ^= 1 << (i % 8); }
    acc.sample(format!("crc: {} single-bit syndromes of a 1472-byte frame; {} pair syndromes sorted and scanned: no subset of <= 4 syndromes XORs to zero", n, n * (n - 1) / 2));
}

pub fn replay_case(case: &str) -> Vec<Violation> {
    let mut acc = Acc::default();
    if let Some(h) = case.strip_prefix("case:parse:") { let b = unhex(h); println!("input ({} bytes): {}", b.len(), &h[..h.len().min(200)]); println!("implementation: {:?}", guarded(|| Frame::read(&b)).map(|f| f.as_ref().map(short))); println!("reference:      {:?}", ref_read(&b).as_ref().map(short)); check_parse(&b, &mut acc, "replayed input"); }
    else if let Some(h) = case.strip_prefix("case:parse-must-reject:") { let b = unhex(h); let r = Frame::read(&b); println!("Frame::read on the altered frame: {:?}", r.as_ref().map(short)); if r.is_some() { acc.violation(case.to_string(), viol("C16.crc", "C16.crc:direct".into(), "an altered frame is accepted".into())); } }
    else { crc_full_length(&mut acc, false); }
    acc.violations.into_iter().map(|x| x.1).collect()
}
