//! Shared scenario pools. Every property decided on the link world (endpoint world) runs the whole
//! pool with its own oracle, in addition to the scenarios that only make sense for itself: a
//! scenario family written with one property in mind (slot reuse, ack reordering, idle then
//! backlog, ...) then also exercises all the others.

use crate::eprops::*;
use crate::ew::*;
use crate::lw::*;
use crate::lwprops::*;
use std::sync::Arc;
use uflow::SendMode;

pub const T_LIVE_ROUNDS: usize = 15_000;

/// Fair suffix up to T_live = 300 s of 20 ms steps; executions stop as soon as both sides are idle.
pub fn env_live(dev_start: usize, dev_rounds: usize) -> LwEnv {
    LwEnv { fates: FATES_BASIC_PLUS, deltas: &[20, 0, 2000], dev_rounds, dev_start, max_rounds: dev_start + dev_rounds + T_LIVE_ROUNDS, skip_choice: false, flush_choice: false,
            blackouts: &[], stop_when_idle: true, fair_delta: 20, slow_after: usize::MAX, slow_delta: 250, fuel: 2_000_000, shifts: &[] }
}

pub const FATES_BASIC_PLUS: &[Fate] = &[Fate::Deliver, Fate::Drop, Fate::Dup, Fate::DupLate, Fate::Delay1, Fate::Delay3];

fn sp(tag: &str, cfg: &LwCfg, script: &Arc<ScriptInfo>, env: LwEnv, d: usize) -> LwSpec {
    LwSpec { tag: tag.to_string(), cfg: cfg.clone(), script: script.clone(), env, d, oracles: 0, probe_round: 0 }
}

pub fn scripts_upto(n_max: usize, chans: &[u8], modes: &[SendMode], sizes: &[usize], spreads: &[usize]) -> Vec<Arc<ScriptInfo>> {
    let mut v = Vec::new();
    for n in 1..=n_max { for &spr in spreads { if n == 1 && spr != spreads[0] { continue; } for ops in all_scripts(n, chans, modes, sizes, spr) { v.push(Arc::new(ScriptInfo::new(ops))); } } }
    v
}

pub fn lw_pool(quick: bool) -> Vec<LwSpec> {
    use SendMode::*;
    let mut v: Vec<LwSpec> = Vec::new();
    let grid = cfg_grid(quick);
    let w4 = &grid[0]; let w4wrap = &grid[1]; let w4wrap2 = &grid[2];
    let w2 = grid.iter().find(|c| c.pwin == 2).unwrap();
    let wide = grid.iter().find(|c| c.pwin == 4096 && c.pbase[0] == 0).unwrap();
    let wide_wrap = grid.iter().find(|c| c.pwin == 4096 && c.pbase[0] != 0).unwrap();
    // F1: every script of <= 2 packets, cold start, the full fate menu
    let sizes: &[usize] = if quick { &[0, 40, 2000] } else { &[0, 40, 1448, 2000, 3000] };
    let all2 = scripts_upto(2, &[0, 1], &MODES, sizes, &[0, 1]);
    for cfg in if quick { vec![w4, w2, wide] } else { grid.iter().collect::<Vec<_>>() } {
        for s in all2.iter() {
            let mut env = env_live(0, if quick { 5 } else { 6 });
            env.fates = FATES_ALL; env.deltas = &[20, 0, 150, 2000]; env.skip_choice = true;
            v.push(sp("all2", cfg, s, env, 2));
        }
    }
    // F2: every script of 3 small packets over 2 channels x {U, R, P}, warm connection, one packet per round or all at once
    let three = scripts_upto(3, &[0, 1], &[Unreliable, Reliable, Persistent], &[40], &[0, 1]);
    for cfg in if quick { vec![w4, w4wrap, w4wrap2] } else { vec![w4, w4wrap, w4wrap2, w2, wide_wrap] } {
        for s in three.iter().filter(|s| s.ops.len() == 3) {
            let s = Arc::new(ScriptInfo::new(warm(&s.ops, 8)));
            let mut env = env_live(8, if quick { 5 } else { 7 });
            env.fates = &[Fate::Deliver, Fate::Drop, Fate::Dup, Fate::Delay3]; env.deltas = &[20, 2000]; env.fair_delta = 50;
            v.push(sp("three", cfg, &s, env, if quick { 2 } else { 3 }));
        }
    }
    // F3: three packets with multi-fragment sizes on tiny windows (slot reuse), warm
    let frag3 = scripts_upto(3, &[0, 1], &[Unreliable, Reliable], &[40, 3000], &[1]);
    for cfg in if quick { vec![w2] } else { vec![w2, w4] } {
        for s in frag3.iter().filter(|s| s.ops.len() == 3 && s.ops.iter().any(|o| matches!(o.kind, OpKind::Send { size: 3000, .. }))) {
            let s = Arc::new(ScriptInfo::new(warm(&s.ops, 8)));
            let mut env = env_live(8, 6);
            env.fates = &[Fate::Deliver, Fate::Drop, Fate::Delay3]; env.deltas = &[20];
            v.push(sp("frag3", cfg, &s, env, 2));
        }
    }
    // F4: collision scripts on every configuration, cold and warm
    for cfg in grid.iter() {
        if quick && cfg.pwin == 4096 && cfg.pbase[0] != 0 { continue; }
        for (name, ops) in collision_scripts() {
            let cold = Arc::new(ScriptInfo::new(ops.clone()));
            let mut env = env_live(0, if quick { 6 } else { 8 });
            if quick { env.fates = &[Fate::Deliver, Fate::Drop, Fate::Dup, Fate::Delay3]; env.deltas = &[20, 2000]; }
            v.push(sp(&format!("col.{}", name), cfg, &cold, env, if quick { 2 } else { 3 }));
            if quick && cfg.pbase[0] != 0 { continue; }
            let w = Arc::new(ScriptInfo::new(warm(&ops, 8)));
            let mut envw = env_live(8, if quick { 7 } else { 9 });
            envw.fates = &[Fate::Deliver, Fate::Drop, Fate::Dup, Fate::Delay3]; envw.deltas = &[20, 2000]; envw.fair_delta = 50;
            v.push(sp(&format!("col-warm.{}", name), cfg, &w, envw, if quick { 2 } else { 3 }));
        }
    }
    // F5: steady streams on warm, wide-window connections with acknowledgement reordering (RTT estimate above the real RTT)
    let streams: Vec<(&str, Vec<Op>, LwCfg)> = vec![
        ("steady-reliable", (0..7).map(|i| send(i, 0, (i % 2) as u8, if i % 3 == 2 { Persistent } else { Reliable }, 200 + 10 * i)).collect(), wide.clone()),
        ("steady-frag", vec![send(0, 0, 0, Reliable, 100), send(1, 0, 1, Reliable, 3000), send(2, 0, 0, Persistent, 101), send(3, 0, 1, Reliable, 102), send(4, 0, 0, Reliable, 103), send(5, 0, 1, Unreliable, 104)], LwCfg { pwin: 8, fwin: 8, ..LwCfg::small() }),
        ("steady-mixed-both-ways", (0..10).map(|i| send(i / 2, i % 2, (i % 3) as u8, MODES[i % 4], if i % 4 == 1 { 2900 } else { 60 + i })).collect(), wide_wrap.clone()),
    ];
    for (name, ops, cfg) in streams {
        let s = Arc::new(ScriptInfo::new(warm(&ops, 8)));
        let mut env = env_live(8, 12);
        env.fates = &[Fate::Deliver, Fate::Drop, Fate::Delay3, Fate::Delay6]; env.deltas = &[20, 2000]; env.fair_delta = 100;
        v.push(sp(&format!("stream.{}", name), &cfg, &s, env, if quick { 2 } else { 3 }));
    }
    // F6: stalls: flush budget, receive allocation, packet window; TimeSensitive packets going stale
    let stalls: Vec<(&str, Vec<Op>, LwCfg)> = vec![
        ("cut-across-flushes", vec![send(0, 0, 0, Persistent, 5000), send(0, 0, 1, TimeSensitive, 3000), send(1, 0, 0, Unreliable, 3000), send(1, 0, 1, Reliable, 2000)], LwCfg { pwin: 8, fwin: 8, bw: [20_000, 20_000], ..LwCfg::small() }),
        ("ts-under-budget", vec![send(0, 0, 0, Unreliable, 1448), send(0, 0, 0, TimeSensitive, 1448), send(0, 0, 0, TimeSensitive, 100), send(1, 0, 0, TimeSensitive, 1448), send(2, 0, 1, Reliable, 10)], LwCfg { bw: [5000, 5000], ..LwCfg::small() }),
        ("ts-multifragment-stale", vec![send(0, 0, 0, Reliable, 6000), send(0, 0, 0, TimeSensitive, 3000), send(0, 0, 1, TimeSensitive, 1449), send(1, 0, 0, TimeSensitive, 4344), send(1, 0, 1, TimeSensitive, 2000), send(2, 0, 0, Unreliable, 10)], LwCfg { bw: [20_000, 20_000], ..LwCfg::small() }),
        ("ts-heavy", vec![send(0, 0, 0, TimeSensitive, 1448), send(0, 0, 0, TimeSensitive, 1448), send(0, 0, 1, TimeSensitive, 700), send(1, 0, 0, TimeSensitive, 20), send(1, 0, 0, Reliable, 21), send(3, 0, 1, TimeSensitive, 22)], LwCfg { bw: [5000, 5000], ..LwCfg::small() }),
        ("alloc-stall", (0..5).map(|i| send(0, 0, 0, if i % 2 == 0 { Reliable } else { TimeSensitive }, 2000 + i)).collect(), LwCfg { pwin: 8, fwin: 8, rx_alloc: [3 * FRAG, 3 * FRAG], ..LwCfg::small() }),
        ("alloc-3-fragments", (0..6).map(|i| send(i / 3, 0, (i % 2) as u8, if i % 2 == 0 { Reliable } else { Unreliable }, [2000, 1448, 1449, 100, 2897, 1][i])).collect(), LwCfg { pwin: 8, fwin: 8, rx_alloc: [3 * FRAG, 3 * FRAG], ..LwCfg::small() }),
        ("alloc-mixed-small-and-near-full", vec![send(0, 0, 0, Unreliable, 100), send(0, 0, 0, Reliable, 4200), send(0, 0, 1, Unreliable, 50), send(1, 0, 0, Reliable, 3000), send(1, 0, 1, Unreliable, 1448), send(1, 0, 0, Reliable, 1449)], LwCfg { pwin: 8, fwin: 8, rx_alloc: [3 * FRAG, 3 * FRAG], ..LwCfg::small() }),
        ("alloc-exact-fit", vec![send(0, 0, 0, Reliable, 4344), send(0, 0, 1, Persistent, 10), send(1, 0, 0, Unreliable, 1448), send(1, 0, 1, Reliable, 2896)], LwCfg { pwin: 4, fwin: 8, rx_alloc: [4344, 4344], ..LwCfg::small() }),
        ("partial-then-idle-then-full", vec![send(0, 0, 0, Unreliable, 3000), send(0, 0, 1, TimeSensitive, 1400), send(200, 0, 0, Reliable, 4344), send(201, 0, 1, Unreliable, 1448)], LwCfg { pwin: 4, fwin: 8, rx_alloc: [4344, 4344], ..LwCfg::small() }),
        ("window-stall", (0..10).map(|i| send(i / 5, 0, (i % 2) as u8, MODES[i % 4], 10 + i)).collect(), LwCfg { pwin: 2, fwin: 4, ..LwCfg::small() }),
        ("both-directions-small-alloc", (0..8).map(|i| send(i / 4, i % 2, 0, if i % 3 == 0 { Reliable } else { Unreliable }, 1000 + 300 * i)).collect(), LwCfg { pwin: 4, fwin: 8, rx_alloc: [3000, 5000], ..LwCfg::small() }),
    ];
    for (name, ops, cfg) in stalls {
        let s = Arc::new(ScriptInfo::new(ops));
        let mut env = env_live(0, if quick { 6 } else { 9 });
        env.fates = &[Fate::Deliver, Fate::Drop, Fate::Dup, Fate::Delay3]; env.deltas = &[20, 0, 2000]; env.flush_choice = !quick;
        v.push(sp(&format!("stall.{}", name), &cfg, &s, env, if quick { 2 } else { 3 }));
    }
    // F7: idle (or a trickle) and then a backlog, with a known RTT and rate x RTT above one frame
    for (name, ops) in [("idle-then-backlog", std::iter::once(send(0, 0, 5, Reliable, 100)).chain((0..40).map(|i| send(150, 0, (i % 2) as u8, Reliable, 1400))).collect::<Vec<Op>>()),
                        ("trickle-then-backlog", (0..10).map(|i| send(i * 12, 0, 5, Reliable, 300)).chain((0..40).map(|i| send(160, 0, (i % 2) as u8, Unreliable, 1400))).collect())] {
        for bw in [5000u32, 100_000] {
            let cfg = LwCfg { pwin: 4096, fwin: 4096, bw: [bw, bw], latency: 5, ..LwCfg::small() };
            let s = Arc::new(ScriptInfo::new(ops.clone()));
            let mut env = env_live(148, if quick { 6 } else { 10 });
            env.fates = &[Fate::Deliver, Fate::Drop, Fate::Delay3]; env.deltas = &[20, 0, 1, 1000]; env.flush_choice = true;
            v.push(sp(&format!("idle.{}", name), &cfg, &s, env, if quick { 2 } else { 3 }));
        }
    }
    // F8: bulk transfer to a peer whose application steps only every 8th round: the sender leaves slow start, 32 and more frames
    // arrive between two steps of the receiver and are acknowledged in one group; a lost fragment keeps its packet incomplete
    {
        let cfg = LwCfg { pwin: 64, fwin: 4096, step_every: [1, 8], ..LwCfg::small() };
        let ops: Vec<Op> = (0..6).map(|i| send(0, 0, (i % 2) as u8, if i == 3 { Persistent } else { Reliable }, 48 * FRAG - 100 * i)).chain(std::iter::once(send(40, 0, 1, Reliable, 50))).collect();
        let s = Arc::new(ScriptInfo::new(ops));
        let dev_start = std::env::var("VERIF_BULK_START").ok().and_then(|x| x.parse().ok()).unwrap_or(40);
        let mut env = env_live(dev_start, if quick { 4 } else { 8 });
        env.fates = &[Fate::Deliver, Fate::Drop]; env.deltas = &[20];
        v.push(sp("bulk.slow-receiver", &cfg, &s, env, if quick { 1 } else { 2 }));
    }
    // F9: more packets than the largest packet window (4096) submitted at once, small and of all modes: the window really fills,
    // every slot is reused one window later, ids wrap in the second configuration
    for (cname, cfg) in [("w4096", wide.clone()), ("w4096-wrap", wide_wrap.clone())] {
        if quick && cname == "w4096-wrap" { continue; }
        let ops: Vec<Op> = (0..4200usize).map(|i| send(0, 0, (i % 3) as u8, MODES[i % 4], if i % 1000 == 7 { 3000 } else { 8 + i % 23 })).collect();
        let s = Arc::new(ScriptInfo::new(warm(&ops, 8)));
        let mut env = env_live(8, if quick { 3 } else { 6 });
        env.fates = &[Fate::Deliver, Fate::Drop]; env.deltas = &[20];
        v.push(sp(&format!("bulk.fill-window.{}", cname), &cfg, &s, env, 1));
    }
    // F12: one packet of 300 fragments (fragment ids beyond 8 bits, acknowledgement flags beyond one 64-bit word, ids 32 / 64 / 256
    // apart in the same packet): any one of the frames of the transfer is lost, data or acknowledgement
    // (and one packet of exactly 64 and of exactly 128 fragments, no loss needed: bookkeeping words exactly full)
    for nf in [64usize, 128] {
        let ops: Vec<Op> = vec![send(0, 0, 0, Reliable, nf * FRAG - 100), send(1, 0, 0, Reliable, 9)];
        let s = Arc::new(ScriptInfo::new(ops));
        let mut env = env_live(0, 3);
        env.fates = &[Fate::Deliver, Fate::Drop]; env.deltas = &[20];
        v.push(sp(&format!("bulk.one-packet-{}-fragments", nf), &wide, &s, env, if quick { 0 } else { 1 }));
    }
    for (name, mode) in [("reliable", Reliable), ("persistent", Persistent)] {
        if quick && name == "persistent" { continue; }
        let ops: Vec<Op> = vec![send(0, 0, 0, mode, 299 * FRAG + 77), send(1, 0, 0, Reliable, 9)];
        let s = Arc::new(ScriptInfo::new(ops));
        let mut env = env_live(0, 250);
        env.fates = &[Fate::Deliver, Fate::Drop]; env.deltas = &[20];
        v.push(sp(&format!("bulk.one-packet-300-fragments.{}", name), &wide, &s, env, 1));
    }
    // F12b: the same on a long fat link (round trip of 20 rounds, 8 MB/s), after a first such packet has opened the send rate: more than
    // 256 fragments of the packet are in flight at once, so fragment k is still unacknowledged when the acknowledgement of k + 256 arrives
    {
        let cfg = LwCfg { latency: 10, bw: [8_000_000, 8_000_000], rx_alloc: [2_000_000, 2_000_000], ..wide.clone() };
        // (the receiver has sent a small packet of its own and so has an RTT estimate: its acknowledgements are not held back by a send rate still at the initial 1472 B/s)
        let ops: Vec<Op> = vec![send(0, 0, 0, Reliable, 300 * FRAG), send(150, 1, 5, Reliable, 30), send(300, 0, 0, Reliable, 299 * FRAG + 77), send(301, 0, 1, Reliable, 9)];
        let s = Arc::new(ScriptInfo::new(ops));
        let mut env = env_live(300, 8);
        env.fates = &[Fate::Deliver, Fate::Drop]; env.deltas = &[20];
        v.push(sp("bulk.one-packet-300-fragments.long-fat-link", &cfg, &s, env, 1));
    }
    // F10: one Reliable packet followed at once by a long run of small Unreliable ones (parent leads of 1..300: every datagram
    // header encoding and its boundaries 127/128, 255/256 occur), same channel and alternating channels, warm
    for (name, chans) in [("same-channel", 1usize), ("two-channels", 2)] {
        // (in the two-channel variant the Reliable packet is on a third channel, so the others have a window parent but no channel parent)
        let ops: Vec<Op> = vec![send(0, 0, if chans == 2 { 5 } else { 0 }, Reliable, 20), send(0, 0, 0, Persistent, 22)].into_iter().chain((0..300usize).map(|i| send(0, 0, (i % chans) as u8, Unreliable, 4 + i % 8))).chain(std::iter::once(send(1, 0, 0, Reliable, 21))).collect();
        let s = Arc::new(ScriptInfo::new(warm(&ops, 30)));
        let mut env = env_live(30, if quick { 3 } else { 6 });
        env.fates = &[Fate::Deliver, Fate::Drop]; env.deltas = &[20];
        // a round trip of 10 rounds: the whole run leaves before the Reliable packet is acknowledged
        let cfg = LwCfg { latency: 5, ..wide.clone() };
        v.push(sp(&format!("bulk.long-unreliable-run.{}", name), &cfg, &s, env, 1));
    }
    // F10c: more than 127 packets of 4 bytes queued at once on a warm connection: a frame has room for 147 such datagrams, its header
    // counts at most 127
    {
        let ops: Vec<Op> = std::iter::once(send(0, 0, 0, Reliable, 20)).chain((0..400usize).map(|i| send(0, 0, (i % 3) as u8, Unreliable, 4))).collect();
        let s = Arc::new(ScriptInfo::new(warm(&ops, 30)));
        let mut env = env_live(30, if quick { 3 } else { 6 });
        env.fates = &[Fate::Deliver, Fate::Drop]; env.deltas = &[20];
        let cfg = LwCfg { latency: 5, ..wide.clone() };
        v.push(sp("bulk.tiny-burst", &cfg, &s, env, 1));
    }
    // F10b: the datagram header encodings switch at parent leads of 128 and 256: a Reliable packet on one channel, a Persistent one on
    // channel 0, filler on channel 1, and exactly one more packet on channel 0 whose window parent lead is L - the only packet that
    // can overtake the Persistent one if its first transmission is lost
    for lead in [128usize, 256] {
        let ops: Vec<Op> = vec![send(0, 0, 5, Reliable, 20), send(0, 0, 0, Persistent, 22)].into_iter().chain((0..lead - 2).map(|i| send(0, 0, 1, Unreliable, 4 + i % 8))).chain(std::iter::once(send(0, 0, 0, Unreliable, 9))).chain((0..10usize).map(|i| send(0, 0, 1, Unreliable, 30 + i))).collect();
        let s = Arc::new(ScriptInfo::new(warm(&ops, 30)));
        let mut env = env_live(30, if quick { 3 } else { 6 });
        env.fates = &[Fate::Deliver, Fate::Drop]; env.deltas = &[20];
        let cfg = LwCfg { latency: 5, ..wide.clone() };
        v.push(sp(&format!("bulk.parent-lead-{}", lead), &cfg, &s, env, 1));
    }
    // F13: long uninterrupted streams on the default windows: a Reliable packet, then 10 small packets in every round for 520 rounds
    // (more than the 4096 ids of a packet window, the sender's window never empty in between), then the next Reliable packet on the
    // same channel: leads and remembered parents older than a whole window. Variant: another channel carries a Reliable packet in every
    // round, so the newest Reliable packet of the connection is never the one being acknowledged
    for (name, other_reliable) in [("plain", false), ("reliable-on-another-channel", true)] {
        let mut ops: Vec<Op> = vec![send(0, 0, 0, Reliable, 20)];
        for r in 1..=520usize { for j in 0..9usize { ops.push(send(r, 0, (j % 2) as u8 * 2, Unreliable, 4 + (r + j) % 8)); } ops.push(send(r, 0, 1, if other_reliable { Reliable } else { Unreliable }, 12)); }
        ops.push(send(521, 0, 0, Reliable, 21)); ops.push(send(521, 0, 2, Persistent, 22)); ops.push(send(522, 0, 0, Unreliable, 23));
        let s = Arc::new(ScriptInfo::new(warm(&ops, 30)));
        let mut env = env_live(30 + 519, 3);
        env.fates = &[Fate::Deliver, Fate::Drop]; env.deltas = &[20];
        let cfg = LwCfg { latency: 2, ..wide.clone() };
        v.push(sp(&format!("bulk.long-stream.{}", name), &cfg, &s, env, if quick { 0 } else { 1 }));
    }
    // F14: one packet (or one fragment of it) is lost again and again for a while - every frame that carries it - while everything else
    // gets through: the head of a transfer against a small receive allocation (the packets behind it are acknowledged frame by frame but
    // the receiver cannot release them), and the second fragment of a two-fragment packet while acknowledgements are delayed past the
    // resend time of the first (a spurious retransmission, both copies acknowledged)
    {
        let ops: Vec<Op> = (0..40usize).map(|i| send(i / 10, 0, (i % 3) as u8, if i % 4 == 3 { Persistent } else { Reliable }, 1300 + (i % 5) * 30)).collect();
        // (warm: the sender has a round-trip estimate and a rate that lets the whole allocation go out within a few rounds)
        let ops: Vec<Op> = ops.into_iter().map(|o| Op { round: o.round + 2, ..o }).collect();
        let s = Arc::new(ScriptInfo::new(warm(&ops, 30)));
        let mut env = env_live(30, 4);
        env.fates = &[Fate::Deliver, Fate::Drop]; env.deltas = &[20];
        for until in [30 + 60usize, 30 + 400] {
            let cfg = LwCfg { rx_alloc: [1_000_000, 8 * FRAG], kill: Some((1, None, until)), ..wide.clone() };
            v.push(sp(&format!("targeted-loss.head-of-transfer.{}", until), &cfg, &s, env.clone(), if quick { 0 } else { 1 }));
        }
        for (name, size, frag_no) in [("second-of-two", 2 * FRAG, 1u16), ("last-of-three", 2 * FRAG + 100, 2), ("first-of-two", 2 * FRAG - 7, 0)] {
            let ops: Vec<Op> = vec![send(0, 0, 0, Reliable, size), send(1, 0, 1, Unreliable, 30), send(3, 0, 0, Reliable, 40)];
            let s = Arc::new(ScriptInfo::new(warm(&ops, 12)));
            let mut env = env_live(12, 6);
            env.fates = &[Fate::Deliver, Fate::Delay3, Fate::Delay6, Fate::Dup]; env.deltas = &[20];
            for until in [12 + 10usize, 12 + 40] {
                let cfg = LwCfg { kill: Some((if s.ops.iter().any(|o| o.side == 1) { 2 } else { 1 }, Some(frag_no), until)), ..w4.clone() };
                v.push(sp(&format!("targeted-loss.fragment.{}.{}", name, until), &cfg, &s, env.clone(), if quick { 1 } else { 2 }));
            }
        }
    }
    // F15: a receiving application that steps only every 2.4 s (120 rounds): a data frame and the sync frame its sender emits 2 s later are
    // read by the same step; the packets that follow reuse the window slots (window 4) with single losses
    {
        let ops: Vec<Op> = (0..10usize).map(|i| send(i * 125, 0, (i % 2) as u8, [Unreliable, Reliable, Persistent][i % 3], 40 + i)).collect();
        let s = Arc::new(ScriptInfo::new(ops));
        let mut env = env_live(0, 0);
        env.fates = &[Fate::Deliver, Fate::Drop]; env.deltas = &[20]; env.dev_start = 125 * 3; env.dev_rounds = 125 * 4 + 5; env.max_rounds = 125 * 12 + T_LIVE_ROUNDS;
        let cfg = LwCfg { step_every: [1, 120], ..w4.clone() };
        v.push(sp("slow-receiving-application.2400ms", &cfg, &s, env, if quick { 1 } else { 2 }));
    }
    // F11: exactly one packet window (4) of small packets, one per round, every script over 2 channels x {U, R, P}, with up to three
    // frames lost: the window is exactly full while several packets are missing, and reopens piecewise
    let four = scripts_upto(4, &[0, 1], &[Unreliable, Reliable, Persistent], &[40], &[1]);
    for cfg in if quick { vec![w4] } else { vec![w4, w4wrap, w4wrap2] } {
        for s in four.iter().filter(|s| s.ops.len() == 4 && s.ops.iter().any(|o| matches!(o.kind, OpKind::Send { mode: Persistent, .. })) && s.ops.iter().any(|o| matches!(o.kind, OpKind::Send { mode: Reliable, .. }))) {
            let s = Arc::new(ScriptInfo::new(warm(&s.ops, 8)));
            let mut env = env_live(8, 8);
            env.fates = &[Fate::Deliver, Fate::Drop]; env.deltas = &[20];
            v.push(sp("window-exactly-full", cfg, &s, env, 3));
        }
    }
    v
}

/// Endpoint-world pool: (tag, cfg, script, env, d).
pub fn ew_pool(quick: bool) -> Vec<EwSpec> {
    let mut v: Vec<EwSpec> = Vec::new();
    let mut add = |p: crate::PropRun| { let _ = p; };
    let _ = &mut add;
    for (f, _) in [(crate::props_ew::c08_specs as fn(bool) -> Vec<EwSpec>, 0), (crate::props_ew::c07_specs, 0), (crate::props_ew::c09_specs, 0), (crate::props_ew::c17_specs, 0), (crate::props_ew::c10_specs, 0)] {
        v.extend(f(quick));
    }
    v
}
