//! Stateless, deviation-bounded exhaustive explorer.
//!
//! A scenario is a deterministic function of the answers given at its choice points. Answer 0 is
//! the benign default. `Chooser::choose(n)` is a choice point whose non-zero answers each cost one
//! deviation; `Chooser::free(n)` is a choice point whose alternatives cost nothing (used for small
//! spaces that are enumerated completely). For a bound d the explorer runs *every* execution with
//! at most d costly deviations, each exactly once (the parent of an execution is the one with its
//! last non-zero answer reset to 0, so the search tree has no duplicates).

use std::collections::HashSet;
use std::sync::atomic::{AtomicBool, AtomicU64, AtomicUsize, Ordering};
use std::sync::{Arc, Mutex};
use std::time::Instant;

pub struct Chooser {
    prefix: Vec<u8>,
    prefix_arity: Vec<u8>,
    pub taken: Vec<u8>,
    pub arity: Vec<u8>,
    pub cost: Vec<u8>,
    /// set when replaying a stored prefix did not meet the same choice points (nondeterminism)
    pub diverged: Option<String>,
    /// choice points beyond this index always answer 0 and are not recorded (keeps runs finite)
    pub max_points: usize,
}

impl Chooser {
    pub fn new(prefix: Vec<u8>, prefix_arity: Vec<u8>) -> Self {
        Self { prefix, prefix_arity, taken: Vec::new(), arity: Vec::new(), cost: Vec::new(), diverged: None, max_points: 4000 }
    }
    fn point(&mut self, n: usize, cost: u8) -> usize {
        debug_assert!(n >= 1 && n <= 255);
        if n <= 1 { return 0; }
        let i = self.taken.len();
        if i >= self.max_points { return 0; }
        let c = if i < self.prefix.len() { self.prefix[i] } else { 0 };
        if i < self.prefix_arity.len() && self.prefix_arity[i] != 0 && self.prefix_arity[i] != n as u8 && self.diverged.is_none() {
            self.diverged = Some(format!("choice point {} had arity {} when the prefix was produced, {} now", i, self.prefix_arity[i], n));
        }
        let c = if (c as usize) >= n {
            if self.diverged.is_none() { self.diverged = Some(format!("choice point {}: answer {} out of range (arity {})", i, c, n)); }
            0
        } else { c };
        self.taken.push(c);
        self.arity.push(n as u8);
        self.cost.push(cost);
        c as usize
    }
    /// Pre-allocates the recording vectors so that no (re)allocation happens while choices are taken.
    pub fn reserve(&mut self, n: usize) { self.taken.reserve(n); self.arity.reserve(n); self.cost.reserve(n); }
    /// Costly choice point: alternatives 1..n are deviations.
    pub fn choose(&mut self, n: usize) -> usize { self.point(n, 1) }
    /// Free choice point: all alternatives are enumerated regardless of the deviation bound.
    pub fn free(&mut self, n: usize) -> usize { self.point(n, 0) }
    pub fn deviations(&self) -> usize {
        self.taken.iter().zip(self.cost.iter()).filter(|(t, c)| **t != 0 && **c != 0).count()
    }
}

#[derive(Clone, Debug)]
pub struct Violation {
    /// oracle clause, e.g. "C01.order"
    pub clause: String,
    /// narrow identity of the failure used to match known findings
    pub sig: String,
    pub detail: String,
}

#[derive(Default)]
pub struct ExecResult {
    /// all oracle violations of this execution (known findings are filtered by the explorer)
    pub violations: Vec<Violation>,
    /// panic message + location if the execution was aborted by a panic in the subject
    pub panic: Option<String>,
    /// hash of the observable outcome (for counting distinct outcomes)
    pub outcome: u64,
    /// hashes of observable states visited (statistics only, never used for pruning)
    pub states: Vec<u64>,
    pub transitions: u64,
    /// coverage witnesses hit (bit mask, meaning defined by the property)
    pub witnesses: u64,
    /// human-readable rendering of the case, used for evidence samples
    pub sample: Option<String>,
}

pub struct Found {
    pub scenario: String,
    pub choices: Vec<u8>,
    pub violation: Violation,
    pub deviations: usize,
}

pub struct Stats {
    pub executions: AtomicU64,
    pub transitions: AtomicU64,
    pub panics: AtomicU64,
    pub max_points: AtomicUsize,
    pub max_devs: AtomicUsize,
    pub witnesses: AtomicU64,
    pub outcomes: Mutex<HashSet<u64>>,
    pub states: Mutex<HashSet<u64>>,
    pub states_capped: AtomicBool,
    pub found: Mutex<Vec<Found>>,
    pub panic_samples: Mutex<Vec<(String, Vec<u8>, String)>>,
    pub samples: Mutex<Vec<String>>,
    pub machinery_error: Mutex<Option<String>>,
    pub stop: AtomicBool,
    pub capped: AtomicBool,
    pub completed_bounds: Mutex<Vec<(String, usize, u64)>>,
}

pub const STATE_CAP: usize = 4_000_000;

impl Stats {
    pub fn new() -> Self {
        Self {
            executions: AtomicU64::new(0), transitions: AtomicU64::new(0), panics: AtomicU64::new(0),
            max_points: AtomicUsize::new(0), max_devs: AtomicUsize::new(0), witnesses: AtomicU64::new(0),
            outcomes: Mutex::new(HashSet::new()), states: Mutex::new(HashSet::new()), states_capped: AtomicBool::new(false),
            found: Mutex::new(Vec::new()), panic_samples: Mutex::new(Vec::new()), samples: Mutex::new(Vec::new()),
            machinery_error: Mutex::new(None), stop: AtomicBool::new(false), capped: AtomicBool::new(false),
            completed_bounds: Mutex::new(Vec::new()),
        }
    }
}

pub type RunFn = dyn Fn(&mut Chooser) -> ExecResult + Send + Sync;

pub struct Scenario {
    pub name: String,
    /// deviation bound for costly choice points
    pub d: usize,
    pub run: Box<RunFn>,
}

struct Item { sc: usize, prefix: Vec<u8>, arity: Vec<u8>, used: usize }

struct Local {
    execs: u64, transitions: u64, panics: u64, max_points: usize, max_devs: usize, witnesses: u64,
    outcomes: HashSet<u64>, states: HashSet<u64>,
    /// executions per scenario index (measured; reported per completed bound in the evidence)
    per_sc: std::collections::HashMap<usize, u64>,
}

thread_local! {
    static PANIC_INFO: std::cell::RefCell<Option<String>> = std::cell::RefCell::new(None);
}

pub fn clear_panic_info() { PANIC_INFO.with(|p| *p.borrow_mut() = None); }
pub fn take_panic_info() -> Option<String> { PANIC_INFO.with(|p| p.borrow_mut().take()) }

pub fn install_panic_hook() {
    std::panic::set_hook(Box::new(|info| {
        let msg = if let Some(s) = info.payload().downcast_ref::<&str>() { s.to_string() }
                  else if let Some(s) = info.payload().downcast_ref::<String>() { s.clone() } else { "<non-string panic>".to_string() };
        let loc = info.location().map(|l| format!("{}:{}", l.file(), l.line())).unwrap_or_default();
        PANIC_INFO.with(|p| *p.borrow_mut() = Some(format!("{} @ {}", msg, loc)));
    }));
}

/// Runs one execution under catch_unwind. A panic inside the subject is reported in `panic`.
pub fn run_guarded(run: &RunFn, ch: &mut Chooser) -> ExecResult {
    PANIC_INFO.with(|p| *p.borrow_mut() = None);
    let r = std::panic::catch_unwind(std::panic::AssertUnwindSafe(|| run(ch)));
    match r {
        Ok(r) => r,
        Err(_) => {
            let msg = PANIC_INFO.with(|p| p.borrow_mut().take()).unwrap_or_else(|| "<panic>".into());
            ExecResult { panic: Some(msg), ..Default::default() }
        }
    }
}

/// Watchdog slots: (start time in ms since epoch of the explorer, scenario index, prefix)
pub struct Watch {
    pub start_ms: AtomicU64,
    pub item: Mutex<Option<(String, Vec<u8>)>>,
}

pub struct Explorer {
    pub stats: Arc<Stats>,
    pub threads: usize,
    pub t0: Instant,
    pub deadline_s: f64,
    pub max_unknown: usize,
    pub watches: Arc<Vec<Watch>>,
    /// called for every violation; returns true if it is a known finding (then it is only counted)
    pub is_known: Arc<dyn Fn(&Violation) -> bool + Send + Sync>,
    pub known_hits: Arc<Mutex<std::collections::BTreeMap<String, u64>>>,
    pub sample_every: u64,
    /// C03: a panic (or exhausted work budget) inside the subject is itself the violation
    pub panic_to_violation: Option<fn(&str, &str) -> Violation>,
}

impl Explorer {
    pub fn new(threads: usize, deadline_s: f64, is_known: Arc<dyn Fn(&Violation) -> bool + Send + Sync>) -> Self {
        let watches = (0..threads).map(|_| Watch { start_ms: AtomicU64::new(0), item: Mutex::new(None) }).collect();
        Self {
            stats: Arc::new(Stats::new()), threads, t0: Instant::now(), deadline_s, max_unknown: 8,
            watches: Arc::new(watches), is_known, known_hits: Arc::new(Mutex::new(Default::default())), sample_every: 0, panic_to_violation: None,
        }
    }

    fn account(&self, sc: &Scenario, ch: &Chooser, r: ExecResult, local: &mut Local) {
        local.execs += 1;
        local.transitions += r.transitions;
        local.max_points = local.max_points.max(ch.taken.len());
        local.max_devs = local.max_devs.max(ch.deviations());
        local.witnesses |= r.witnesses;
        local.outcomes.insert(r.outcome);
        if !self.stats.states_capped.load(Ordering::Relaxed) {
            for s in r.states.iter() { local.states.insert(*s); }
            if local.states.len() > STATE_CAP / self.threads.max(1) { self.stats.states_capped.store(true, Ordering::Relaxed); }
        }
        if let Some(d) = &ch.diverged {
            let mut m = self.stats.machinery_error.lock().unwrap();
            if m.is_none() { *m = Some(format!("replay divergence in scenario {}: {} (choices {:?})", sc.name, d, ch.taken)); }
            self.stats.stop.store(true, Ordering::Relaxed);
        }
        let mut r = r;
        if let (Some(p), Some(f)) = (r.panic.as_ref(), self.panic_to_violation) { let v = f(p, &format!("scenario {}", &sc.name[..sc.name.len().min(60)])); if !v.sig.ends_with("not-a-verdict") { r.violations.push(v); } }
        if let Some(p) = r.panic.as_ref() {
            // a panic whose location lies in the harness itself (relative path src/...) is a machinery failure, never a verdict
            let loc = p.rsplit(" @ ").next().unwrap_or("");
            if loc.starts_with("src/") {
                let mut m = self.stats.machinery_error.lock().unwrap();
                if m.is_none() { *m = Some(format!("the harness panicked in scenario {}: {} (choices {:?})", sc.name, p, ch.taken)); }
                self.stats.stop.store(true, Ordering::Relaxed);
            }
        }
        if let Some(p) = r.panic {
            local.panics += 1;
            let mut ps = self.stats.panic_samples.lock().unwrap();
            if ps.len() < 200 && !ps.iter().any(|(_, _, m)| *m == p) { ps.push((sc.name.clone(), ch.taken.clone(), p)); }
        }
        if let Some(s) = r.sample {
            let mut ss = self.stats.samples.lock().unwrap();
            if ss.len() < 6 { ss.push(s); }
        }
        for v in r.violations {
            if (self.is_known)(&v) {
                *self.known_hits.lock().unwrap().entry(v.sig.clone()).or_insert(0) += 1;
            } else {
                let mut f = self.stats.found.lock().unwrap();
                let devs = ch.deviations();
                if let Some(e) = f.iter_mut().find(|e| e.violation.sig == v.sig) {
                    if devs < e.deviations || (devs == e.deviations && ch.taken.len() < e.choices.len()) {
                        e.scenario = sc.name.clone(); e.choices = ch.taken.clone(); e.violation = v; e.deviations = devs;
                    }
                } else {
                    f.push(Found { scenario: sc.name.clone(), choices: ch.taken.clone(), violation: v, deviations: devs });
                    if f.len() >= self.max_unknown { self.stats.stop.store(true, Ordering::Relaxed); }
                }
            }
        }
    }

    fn merge(&self, local: Local) {
        let s = &self.stats;
        s.executions.fetch_add(local.execs, Ordering::Relaxed);
        s.transitions.fetch_add(local.transitions, Ordering::Relaxed);
        s.panics.fetch_add(local.panics, Ordering::Relaxed);
        s.max_points.fetch_max(local.max_points, Ordering::Relaxed);
        s.max_devs.fetch_max(local.max_devs, Ordering::Relaxed);
        s.witnesses.fetch_or(local.witnesses, Ordering::Relaxed);
        s.outcomes.lock().unwrap().extend(local.outcomes);
        let mut st = s.states.lock().unwrap();
        if st.len() < STATE_CAP { st.extend(local.states); }
    }

    /// Explores all scenarios completely up to their deviation bounds, using all worker threads.
    /// Work items of all scenarios share one stack, so many small scenarios and few large ones
    /// are both spread over the workers.
    pub fn explore_all(&self, scs: &[Scenario]) {
        let mut init: Vec<Item> = (0..scs.len()).map(|i| Item { sc: i, prefix: vec![], arity: vec![], used: 0 }).collect();
        init.reverse();
        let stack: Mutex<Vec<Item>> = Mutex::new(init);
        let active = AtomicUsize::new(0);
        let per_sc: Mutex<Vec<u64>> = Mutex::new(vec![0; scs.len()]);
        std::thread::scope(|scope| {
            for w in 0..self.threads {
                let stack = &stack; let active = &active; let per_sc = &per_sc;
                scope.spawn(move || {
                    let mut local = Local { execs: 0, transitions: 0, panics: 0, max_points: 0, max_devs: 0, witnesses: 0, outcomes: HashSet::new(), states: HashSet::new(), per_sc: Default::default() };
                    let mut n = 0u64;
                    loop {
                        if self.stats.stop.load(Ordering::Relaxed) { break; }
                        let item = {
                            let mut st = stack.lock().unwrap();
                            match st.pop() { Some(i) => { active.fetch_add(1, Ordering::SeqCst); Some(i) } None => None }
                        };
                        let item = match item {
                            Some(i) => i,
                            None => {
                                if active.load(Ordering::SeqCst) == 0 { break; }
                                std::thread::yield_now();
                                continue;
                            }
                        };
                        self.run_item(scs, item, stack, w, &mut local);
                        active.fetch_sub(1, Ordering::SeqCst);
                        n += 1;
                        if n % 16 == 0 && self.t0.elapsed().as_secs_f64() > self.deadline_s {
                            self.stats.capped.store(true, Ordering::Relaxed);
                            self.stats.stop.store(true, Ordering::Relaxed);
                        }
                    }
                    { let mut g = per_sc.lock().unwrap(); for (k, v) in local.per_sc.iter() { g[*k] += *v; } }
                    self.merge(local);
                });
            }
        });
        if !self.stats.stop.load(Ordering::Relaxed) {
            let mut cb = self.stats.completed_bounds.lock().unwrap();
            let g = per_sc.lock().unwrap();
            for (i, sc) in scs.iter().enumerate() { cb.push((sc.name.clone(), sc.d, g[i])); }
        }
    }

    fn run_one(&self, sc: &Scenario, prefix: Vec<u8>, arity: Vec<u8>, w: usize, local: &mut Local) -> Chooser {
        let mut ch = Chooser::new(prefix, arity);
        {
            let watch = &self.watches[w];
            *watch.item.lock().unwrap() = Some((sc.name.clone(), ch.prefix.clone()));
            watch.start_ms.store(self.t0.elapsed().as_millis() as u64 + 1, Ordering::SeqCst);
        }
        let r = run_guarded(&*sc.run, &mut ch);
        self.watches[w].start_ms.store(0, Ordering::SeqCst);
        let mut r = r;
        if self.sample_every != 0 && r.sample.is_none() && local.execs % self.sample_every == 0 {
            r.sample = Some(format!("scenario={} choices={:?}", sc.name, ch.taken));
        }
        self.account(sc, &ch, r, local);
        ch
    }

    fn run_item(&self, scs: &[Scenario], item: Item, stack: &Mutex<Vec<Item>>, w: usize, local: &mut Local) {
        let sc = &scs[item.sc]; let sci = item.sc;
        let start = item.prefix.len();
        let used = item.used;
        let ch = self.run_one(sc, item.prefix, item.arity, w, local);
        *local.per_sc.entry(sci).or_insert(0) += 1;
        if ch.diverged.is_some() { return; }
        // children: deviate at every later choice point
        let mut children: Vec<Item> = Vec::new();
        for i in start..ch.taken.len() {
            let cost = ch.cost[i] as usize;
            if used + cost > sc.d { continue; }
            for alt in 1..ch.arity[i] {
                let mut p = ch.taken[..i].to_vec(); p.push(alt);
                let a = ch.arity[..=i].to_vec();
                children.push(Item { sc: sci, prefix: p, arity: a, used: used + cost });
            }
        }
        if children.is_empty() { return; }
        // Leaves (children that cannot deviate further through costly points) are cheap to run
        // inline when the whole scenario has no free points left; otherwise share them.
        let share = { let st = stack.lock().unwrap(); st.len() < self.threads * 4 };
        if share {
            let mut st = stack.lock().unwrap();
            children.reverse();
            st.extend(children);
        } else {
            // depth-first locally
            children.reverse();
            while let Some(c) = children.pop() {
                if self.stats.stop.load(Ordering::Relaxed) { return; }
                if self.t0.elapsed().as_secs_f64() > self.deadline_s { self.stats.capped.store(true, Ordering::Relaxed); self.stats.stop.store(true, Ordering::Relaxed); return; }
                self.run_item(scs, c, stack, w, local);
            }
        }
    }
}

pub fn fnv(h: u64, x: u64) -> u64 {
    let mut h = h ^ x;
    h = h.wrapping_mul(0x100000001b3);
    h ^ (h >> 29)
}
pub fn hash_bytes(mut h: u64, b: &[u8]) -> u64 {
    for &x in b { h = (h ^ x as u64).wrapping_mul(0x100000001b3); }
    h
}
