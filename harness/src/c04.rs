//! C04: fragmentation and reassembly are exact for every packet size.
//! (a) link-world executions with one packet of every boundary size, flush budgets that cut it
//!     across flushes, and per-frame fates; (b) a lone receiving HalfConnection fed with every
//!     arrival order / duplication pattern / interleaving of the fragments of a packet, plus
//!     fragments whose header disagrees with the first one seen.

use crate::explore::*;
use crate::lw::*;
use crate::lwprops::*;
use crate::report::Summary;
use crate::sweep::*;
use crate::PropRun;
use serde_json::json;
use std::sync::Arc;
use uflow::verif::frame::*;
use uflow::verif::*;
use uflow::SendMode;

fn receiver(rx_alloc: usize) -> HalfConnection {
    let cfg = LwCfg { pwin: 8, fwin: 4096, pbase: [0, 0x000F_FFFE], fbase: [0, 500], rx_alloc: [rx_alloc, rx_alloc], ..LwCfg::small() };
    HalfConnection::new(cfg.half(0))
}

/// set by C03: the same sweep with the panic / work-budget oracle only
pub static FOR_C03: std::sync::atomic::AtomicBool = std::sync::atomic::AtomicBool::new(false);

#[derive(Clone, Debug)]
struct Item { dg: Datagram, hostile: bool }

fn frag(pid: u32, ch: u8, k: usize, n: usize, data: &[u8]) -> Datagram {
    let a = k * FRAG; let b = ((k + 1) * FRAG).min(data.len());
    Datagram { sequence_id: pid, channel_id: ch, window_parent_lead: 0, channel_parent_lead: 0, fragment_id: k as u16, fragment_id_last: (n - 1) as u16, data: data[a..b].into() }
}

/// Feeds the items in order (each in its own data frame) to a fresh receiver and checks the result.
fn feed(items: &[Item], p_main: &[u8], p_nb: &[u8], acc: &mut Acc, what: &str) {
    acc.evals += 1;
    let case = || format!("case:frag:{}", items.iter().map(|i| format!("{}{}.{}.{}.{}.{}.{}.{}", if i.hostile { "h" } else { "g" }, i.dg.sequence_id, i.dg.channel_id, i.dg.window_parent_lead, i.dg.channel_parent_lead, i.dg.fragment_id, i.dg.fragment_id_last, i.dg.data.len())).collect::<Vec<_>>().join(","));
    let r = guarded(|| {
        set_time_ms(0); set_fuel(1_000_000);
        let mut hc = receiver(1_000_000);
        let mut out: Vec<Box<[u8]>> = Vec::new();
        for (k, it) in items.iter().enumerate() {
            hc.handle_data_frame(DataFrame { sequence_id: 500 + k as u32, nonce: false, datagrams: vec![it.dg.clone()] });
            let mut ps = PS(vec![]); hc.receive(&mut ps); out.extend(ps.0);
        }
        set_fuel(u64::MAX);
        out
    });
    set_fuel(u64::MAX);
    let for_c03 = FOR_C03.load(std::sync::atomic::Ordering::Relaxed);
    match r {
        // a panic while handling fragments: C03's business, and for C04 an execution on which nothing it promises can happen
        Err(p) => { acc.panics += 1; let loc = p.rsplit(" @ ").next().unwrap_or("").to_string(); let fuel = p.contains(uflow_fuel_marker());
            if for_c03 { acc.violation(case(), viol(if fuel { "C03.unbounded-work" } else { "C03.panic" }, format!("C03.{}:reassembly:{}", if fuel { "unbounded-work" } else { "panic" }, loc), format!("{}: the receiver panicked while handling these fragments: {}", what, p))); }
            else { acc.violation(case(), viol("C04.aborted-by-panic", format!("C04.aborted-by-panic:{}", loc), format!("{}: the receiver panicked while handling these fragments, so the packet cannot be reassembled: {}", what, p))); } }
        Ok(_) if for_c03 => {}
        Ok(out) => {
            let mut h = 0x04u64; for p in out.iter() { h = fnv(h, p.len() as u64); }
            acc.outcomes.insert(h ^ (items.len() as u64) << 48);
            let n_main = out.iter().filter(|p| p[..] == p_main[..]).count(); let n_nb = out.iter().filter(|p| p[..] == p_nb[..]).count();
            for p in out.iter() { if p[..] != p_main[..] && p[..] != p_nb[..] {
                acc.violation(case(), viol("C04.reassembly", format!("C04.reassembly:altered{}", if items.iter().any(|i| i.hostile) { ":by-disagreeing-fragment" } else { "" }), format!("{}: a delivered packet of {} bytes matches neither submitted packet ({} / {} bytes)", what, p.len(), p_main.len(), p_nb.len())));
            } }
            if n_main > 1 || n_nb > 1 { acc.violation(case(), viol("C04.reassembly", "C04.reassembly:twice".into(), format!("{}: a packet was delivered {} times", what, n_main.max(n_nb)))); }
            // all genuine fragments of the main packet are present: it is delivered unless the newer neighbour was delivered first
            if n_main == 0 && !(n_nb == 1 && out.first().map_or(false, |p| p[..] == p_nb[..])) {
                acc.violation(case(), viol("C04.reassembly", format!("C04.reassembly:lost{}", if items.iter().any(|i| i.hostile) { ":by-disagreeing-fragment" } else { "" }), format!("{}: every fragment of the packet arrived but it was not delivered (deliveries: {:?})", what, out.iter().map(|p| p.len()).collect::<Vec<_>>())));
            }
        }
    }
}

fn uflow_fuel_marker() -> &'static str { uflow::verif::FUEL_PANIC }

fn permutations(n: usize, f: &mut dyn FnMut(&[usize])) {
    fn rec(k: usize, a: &mut Vec<usize>, f: &mut dyn FnMut(&[usize])) {
        if k == a.len() { f(a); return; }
        for i in k..a.len() { a.swap(k, i); rec(k + 1, a, f); a.swap(k, i); }
    }
    let mut a: Vec<usize> = (0..n).collect();
    rec(0, &mut a, f);
}

pub fn receiver_units(quick: bool) -> Vec<Unit> {
    let mut units: Vec<Unit> = Vec::new();
    let ns: &[usize] = if quick { &[2, 3, 4] } else { &[2, 3, 4, 5, 6] };
    for &n in ns {
        for last_len in [1usize, 700, FRAG] {
            let size = (n - 1) * FRAG + last_len;
            let max_items = if quick { 7 } else { 8 };
            for mask in 0..(1u32 << n) {
                for with_nb in [false, true] {
                    let total = n + mask.count_ones() as usize + if with_nb { 2 } else { 0 };
                    if total > max_items { continue; }
                    units.push(Box::new(move |acc: &mut Acc| {
                        let p_main = payload(1, 3, 0, size); let p_nb = payload(1, 3, 1, FRAG + 5);
                        let mut base: Vec<Item> = (0..n).map(|k| Item { dg: frag(0x000F_FFFE, 3, k, n, &p_main), hostile: false }).collect();
                        for k in 0..n { if mask & (1 << k) != 0 { base.push(Item { dg: frag(0x000F_FFFE, 3, k, n, &p_main), hostile: false }); } }
                        if with_nb { for k in 0..2 { base.push(Item { dg: frag(0x000F_FFFF, 3, k, 2, &p_nb), hostile: false }); } }
                        permutations(base.len(), &mut |perm| {
                            let items: Vec<Item> = perm.iter().map(|&i| base[i].clone()).collect();
                            feed(&items, &p_main, &p_nb, acc, "arrival order / duplication / interleaving");
                        });
                        acc.sample(format!("receiver: {} fragments (last {} B), duplicate mask {:b}, neighbour {}: all {} arrival orders", n, last_len, mask, with_nb, (1..=base.len()).product::<usize>()));
                    }));
                }
            }
            // hostile fragments disagreeing with the first fragment seen, at every position after the first genuine fragment, every arrival order
            if n <= 4 {
                units.push(Box::new(move |acc: &mut Acc| {
                    let p_main = payload(1, 3, 0, size); let p_nb = payload(1, 3, 1, FRAG + 5);
                    let base: Vec<Item> = (0..n).map(|k| Item { dg: frag(0x000F_FFFE, 3, k, n, &p_main), hostile: false }).collect();
                    let junk = vec![0xEEu8; FRAG];
                    let mut hostile: Vec<Datagram> = Vec::new();
                    for k in 0..n {
                        let g = frag(0x000F_FFFE, 3, k, n, &p_main);
                        let j = |len: usize| -> Box<[u8]> { junk[..len].into() };
                        hostile.push(Datagram { channel_id: 4, data: j(g.data.len()), ..g.clone() });
                        hostile.push(Datagram { window_parent_lead: 1, channel_parent_lead: 1, data: j(g.data.len()), ..g.clone() });
                        hostile.push(Datagram { window_parent_lead: 2, data: j(g.data.len()), ..g.clone() });
                        hostile.push(Datagram { fragment_id_last: n as u16, data: j(FRAG), ..g.clone() });
                        hostile.push(Datagram { fragment_id_last: (n as u16).saturating_sub(2).max(k as u16), data: j(if k + 2 >= n { 10 } else { FRAG }), ..g.clone() });
                        if k + 1 < n { hostile.push(Datagram { data: j(100), ..g.clone() }); }        // non-last fragment shorter than a full fragment
                        hostile.push(Datagram { fragment_id: n as u16, fragment_id_last: (n - 1) as u16, data: j(10), ..g.clone() }); // fragment id beyond last
                    }
                    // a fragment that agrees with the genuine header in every field is not a disagreeing fragment (first write wins is all that can be asked)
                    hostile.retain(|h| { let g = &base[0].dg; !(h.channel_id == g.channel_id && h.window_parent_lead == g.window_parent_lead && h.channel_parent_lead == g.channel_parent_lead && h.fragment_id_last == g.fragment_id_last && h.fragment_id <= h.fragment_id_last && (h.fragment_id == h.fragment_id_last || h.data.len() == FRAG)) });
                    // fragments of a neighbouring packet that claims the largest fragment counts the header can express (it cannot be held in
                    // memory and is refused; it names the genuine packet as its parent, so it cannot be delivered before it): before, between
                    // and after the genuine fragments
                    let huge: Vec<Datagram> = [65535u16, 65534, 32768].iter().flat_map(|&last| [0u16, last].into_iter().map(move |f| (f, last))).map(|(f, last)| Datagram { sequence_id: 0x000F_FFFF, channel_id: 4, window_parent_lead: 1, channel_parent_lead: 0, fragment_id: f, fragment_id_last: last, data: junk[..if f == last { 7 } else { FRAG }].into() }).collect();
                    permutations(n, &mut |perm| {
                        for pos in 0..=n { for h in huge.iter() {
                            let mut items: Vec<Item> = perm.iter().map(|&i| base[i].clone()).collect();
                            items.insert(pos, Item { dg: h.clone(), hostile: true });
                            feed(&items, &p_main, &p_nb, acc, "fragment of a neighbouring packet claiming up to 65536 fragments");
                        } }
                    });
                    permutations(n, &mut |perm| {
                        for pos in 1..=n { for h in hostile.iter() {
                            let mut items: Vec<Item> = perm.iter().map(|&i| base[i].clone()).collect();
                            items.insert(pos, Item { dg: h.clone(), hostile: true });
                            feed(&items, &p_main, &p_nb, acc, "fragment whose header disagrees with the first one seen");
                        } }
                    });
                    acc.sample(format!("receiver: {} fragments (last {} B) in every order with each of {} disagreeing fragments inserted at every later position", n, last_len, hostile.len()));
                }));
            }
        }
    }
    units
}

/// A packet of 130 fragments (two 64-fragment word boundaries) handed to a lone real receiver in ascending order with two fragments held
/// back and delivered at the end (both orders), and a second copy of one fragment inserted right behind its first copy, one fragment
/// later, or just before the held ones: every choice of the three from the fragments around the word boundaries and a few others.
fn wide_case(last_len: usize, h1: usize, h2: usize, dup: usize, place: usize, swap: bool) -> (String, Option<Violation>, u64) {
    let n = 130usize;
    let size = (n - 1) * FRAG + last_len;
    let p_main = payload(1, 3, 0, size);
    let mut order: Vec<usize> = (0..n).filter(|&k| k != h1 && k != h2).collect();
    let pos = order.iter().position(|&k| k == dup).unwrap();
    // place 3: the second copy arrives between the two held-back fragments (after the first of them has filled its gap)
    if place < 3 { let at = match place { 0 => pos + 1, 1 => (pos + 2).min(order.len()), _ => order.len() }; order.insert(at, dup); }
    let (a, b) = if swap { (h2, h1) } else { (h1, h2) };
    order.push(a); if place == 3 { order.push(dup); } order.push(b);
    let r = guarded(|| {
        set_time_ms(0); set_fuel(4_000_000);
        let frags: Vec<Datagram> = (0..n).map(|k| frag(0x000F_FFFE, 3, k, n, &p_main)).collect();
        let mut hc = receiver(1_000_000);
        let mut out: Vec<Box<[u8]>> = Vec::new();
        for (i, &k) in order.iter().enumerate() {
            hc.handle_data_frame(DataFrame { sequence_id: 500 + i as u32, nonce: false, datagrams: vec![frags[k].clone()] });
            let mut ps = PS(vec![]); hc.receive(&mut ps); out.extend(ps.0);
        }
        set_fuel(u64::MAX);
        out
    });
    set_fuel(u64::MAX);
    let case = format!("case:wide:{}:{}:{}:{}:{}:{}", last_len, h1, h2, dup, place, swap as u8);
    match r {
        Err(p) => (case, Some(viol("C04.aborted-by-panic", format!("C04.aborted-by-panic:{}", p.rsplit(" @ ").next().unwrap_or("")), format!("the receiver panicked while reassembling a 130-fragment packet: {}", p))), 0xDEAD),
        Ok(out) => {
            let h = fnv(out.len() as u64, out.first().map_or(0, |p| p.len() as u64));
            if out.len() != 1 || out[0][..] != p_main[..] {
                let diff = out.first().map(|p| p.iter().zip(p_main.iter()).position(|(a, b)| a != b));
                (case, Some(viol("C04.reassembly", "C04.reassembly:wide-packet".into(), format!("a packet of 130 fragments ({} bytes) handed over in ascending order with fragments {} and {} held back to the end and a second copy of fragment {} (place {}) was delivered as {:?} (first differing byte {:?})", size, h1, h2, dup, place, out.iter().map(|p| p.len()).collect::<Vec<_>>(), diff))), h)
            } else { (case, None, h) }
        }
    }
}

pub fn wide_units(quick: bool) -> Vec<Unit> {
    let mut units: Vec<Unit> = Vec::new();
    let marks: Vec<usize> = if quick { vec![0, 10, 63, 64, 65, 127, 128, 129] } else { vec![0, 1, 10, 62, 63, 64, 65, 66, 100, 126, 127, 128, 129] };
    for last_len in [700usize, FRAG] {
        for (ui, &h1) in marks.iter().enumerate() {
            let marks = marks.clone();
            units.push(Box::new(move |acc: &mut Acc| {
                for &h2 in marks.iter().filter(|&&m| m > h1) { for &dup in marks.iter() { for place in 0..4usize { for swap in [false, true] {
                    if dup == h1 || dup == h2 { continue; }
                    let (case, v, h) = wide_case(last_len, h1, h2, dup, place, swap);
                    acc.evals += 1; acc.transitions += 131; acc.outcomes.insert(h ^ (ui as u64) << 32);
                    if h == 0xDEAD { acc.panics += 1; }
                    if let Some(v) = v { acc.violation(case, v); }
                } } } }
                if ui == 2 { acc.sample(format!("receiver: 130 fragments (last {} B), fragment {} and each later marked fragment held back, each other marked fragment duplicated at 4 places", last_len, h1)); }
            }));
        }
    }
    units
}

pub fn replay_case(case: &str) -> Vec<Violation> {
    if let Some(f) = case.strip_prefix("case:wide:") { let v: Vec<usize> = f.split(':').filter_map(|x| x.parse().ok()).collect(); if v.len() == 6 { return wide_case(v[0], v[1], v[2], v[3], v[4], v[5] == 1).1.into_iter().collect(); } }
    let mut acc = Acc::default();
    if let Some(spec) = case.strip_prefix("case:frag:") {
        // rebuild the items: genuine fragments are recomputed from the payload generator, hostile ones carry junk
        let fields: Vec<Vec<String>> = spec.split(',').map(|s| s.split('.').map(|x| x.to_string()).collect()).collect();
        let n = fields.iter().filter(|f| f[0].starts_with('g') && f[0][1..].parse::<u32>().ok() == Some(0x000F_FFFE)).map(|f| f[5].parse::<usize>().unwrap() + 1).max().unwrap_or(1);
        let last_len = fields.iter().filter(|f| f[0].starts_with('g') && f[0][1..].parse::<u32>().ok() == Some(0x000F_FFFE) && f[4].parse::<usize>().unwrap() + 1 == n).map(|f| f[6].parse::<usize>().unwrap()).next().unwrap_or(1);
        let p_main = payload(1, 3, 0, (n - 1) * FRAG + last_len); let p_nb = payload(1, 3, 1, FRAG + 5);
        let items: Vec<Item> = fields.iter().map(|f| {
            let hostile = f[0].starts_with('h'); let pid: u32 = f[0][1..].parse().unwrap();
            let (ch, w, h, fi, fl, len): (u8, u16, u16, u16, u16, usize) = (f[1].parse().unwrap(), f[2].parse().unwrap(), f[3].parse().unwrap(), f[4].parse().unwrap(), f[5].parse().unwrap(), f[6].parse().unwrap());
            let data: Box<[u8]> = if hostile { vec![0xEE; len].into() } else if pid == 0x000F_FFFE { frag(pid, ch, fi as usize, n, &p_main).data } else { frag(pid, ch, fi as usize, 2, &p_nb).data };
            Item { dg: Datagram { sequence_id: pid, channel_id: ch, window_parent_lead: w, channel_parent_lead: h, fragment_id: fi, fragment_id_last: fl, data }, hostile }
        }).collect();
        for it in items.iter() { println!("  {} packet {:x} ch{} leads {}/{} fragment {}/{} {} B", if it.hostile { "HOSTILE" } else { "genuine" }, it.dg.sequence_id, it.dg.channel_id, it.dg.window_parent_lead, it.dg.channel_parent_lead, it.dg.fragment_id, it.dg.fragment_id_last, it.dg.data.len()); }
        feed(&items, &p_main, &p_nb, &mut acc, "replayed case");
    }
    acc.violations.into_iter().map(|x| x.1).collect()
}

pub fn build(quick: bool) -> PropRun {
    let oracles = O_C04 | O_C01 | O_FSIZE | O_LIVE;
    let mut scs: Vec<Scenario> = crate::pool::lw_pool(quick).into_iter().map(|mut s| { s.oracles = oracles; s.tag = format!("C04.pool.{}", s.tag); lw_scenario(s) }).collect();
    let kmax = if quick { 8 } else { 64 };
    let mut sizes: Vec<usize> = vec![0, 1, 63, 64, 255, 256];
    for k in 1..=kmax { sizes.extend([k * FRAG - 1, k * FRAG, k * FRAG + 1]); }
    sizes.push(100_000);
    // 64 and 128 fragments exactly, one byte less and more: per-fragment bookkeeping is kept in 64-bit words on both sides
    for k in [64usize, 128] { if k > kmax { sizes.extend([k * FRAG - 1, k * FRAG, k * FRAG + 1]); } }
    for (bi, &bw) in [2_000_000u32, 20_000, 3000].iter().enumerate() {
        for &size in sizes.iter() {
            if quick && bi > 0 && !(size % FRAG <= 1 || size % FRAG == FRAG - 1) { continue; }
            if bw == 3000 && size > 8 * FRAG + 1 { continue; }
            if bw == 20_000 && size > 20 * FRAG + 1 { continue; }
            for mode in [SendMode::Reliable, SendMode::Unreliable] {
                if mode == SendMode::Unreliable && (quick || bi > 0) && size > 3 * FRAG + 1 { continue; }
                let cfg = LwCfg { pwin: 4, fwin: 64, bw: [bw, bw], rx_alloc: [1_000_000.max(size), 1_000_000.max(size)], ..LwCfg::small() };
                let si = Arc::new(ScriptInfo::new(vec![send(0, 0, 2, mode, size)]));
                let n_frames = size / FRAG + 1;
                let heavy = n_frames > 6;
                let dev = if heavy { 4 } else if quick { 6 } else { 8 };
                let env = LwEnv { fates: if mode == SendMode::Reliable { &[Fate::Deliver, Fate::Drop, Fate::Dup, Fate::Delay3] } else { &[Fate::Deliver, Fate::Dup] }, deltas: &[20, 0, 2000], dev_rounds: dev, dev_start: 0,
                                  max_rounds: dev + crate::props::T_LIVE_ROUNDS, skip_choice: false, flush_choice: !quick, blackouts: &[], stop_when_idle: true, fair_delta: 20, slow_after: usize::MAX, slow_delta: 250, fuel: 4_000_000, shifts: &[] };
                let d = if heavy { 1 } else if quick { 2 } else { 3 };
                scs.push(lw_scenario(LwSpec { tag: "C04.size".into(), cfg, script: si, env, d, oracles, probe_round: 0 }));
            }
        }
    }
    // sequences of multi-fragment packets whose window slots are reused (windows 2, 4, 8), with partial losses
    for (name, ops) in collision_scripts().into_iter().filter(|(n, _)| n.starts_with("frag-slot-reuse") || n.starts_with("persistent-frag") || n.starts_with("frag3")) {
        for (pw, fw) in [(2u32, 8u32), (4, 8), (8, 16)] {
            let cfg = LwCfg { pwin: pw, fwin: fw, ..LwCfg::small() };
            let si = Arc::new(ScriptInfo::new(ops.clone()));
            let dev = if quick { 8 } else { 10 };
            let env = LwEnv { fates: &[Fate::Deliver, Fate::Drop, Fate::Dup, Fate::Delay3], deltas: &[20, 2000], dev_rounds: dev, dev_start: 0, max_rounds: dev + crate::props::T_LIVE_ROUNDS, skip_choice: false, flush_choice: false, blackouts: &[], stop_when_idle: true,
                              fair_delta: 20, slow_after: usize::MAX, slow_delta: 250, fuel: 4_000_000, shifts: &[] };
            scs.push(lw_scenario(LwSpec { tag: format!("C04.seq.{}", name), cfg, script: si, env, d: if quick { 2 } else { 3 }, oracles, probe_round: 0 }));
        }
    }
    if !quick {
        // the absolute maximum packet size: 65536 fragments
        let size = uflow::MAX_PACKET_SIZE;
        let cfg = LwCfg { pwin: 4, fwin: 4096, bw: [u32::MAX, u32::MAX], rx_alloc: [size, size], ..LwCfg::small() };
        let si = Arc::new(ScriptInfo::new(vec![send(0, 0, 0, SendMode::Reliable, size)]));
        let env = LwEnv { fates: FATES_NONE, deltas: &[20], dev_rounds: 0, dev_start: 0, max_rounds: 40_000, skip_choice: false, flush_choice: false, blackouts: &[], stop_when_idle: true, fair_delta: 20, slow_after: usize::MAX, slow_delta: 250, fuel: 50_000_000, shifts: &[] };
        scs.push(lw_scenario(LwSpec { tag: "C04.max-packet".into(), cfg, script: si, env, d: 0, oracles, probe_round: 0 }));
    }
    for mp in if quick { vec![4444usize] } else { vec![1, 1448, 4444, 100_000] } { scs.push(crate::props_ew::c04_api_scenario(mp)); }
    PropRun { level: "model_checking", scenarios: scs, units: { let mut u = receiver_units(quick); u.extend(wide_units(quick)); u }, replay_case: Some(replay_case), summary: Summary {
        rule: "(a) deviation-bounded link-world exploration with one packet of every boundary size (fragment multiples +-1), three flush budgets, frame fates; wire fragments and delivered bytes compared with the submitted payload, no frame above 1472 bytes; (b) a lone real receiver fed with all arrival orders x duplication patterns x interleavings with a neighbour packet, and with every disagreeing fragment at every position after the first genuine one; (c) at the public API: packets of 0, 1, the fragment boundaries, max_packet_size - 1 and exactly max_packet_size bytes through Client::send and RemoteClient::send in both directions, Reliable and Unreliable, loss-free: each once, byte-identical, in order, no datagram above 1472 bytes".into(),
        bounds: json!({"sizes": format!("0,1,63,64,255,256, k*1448-1..k*1448+1 for k=1..{}, 100000{}", kmax, if quick { "" } else { ", MAX_PACKET_SIZE" }), "budgets_Bps": [2_000_000, 20_000, 3000], "receiver_fragments": if quick { "2..4" } else { "2..6" }, "receiver_items_max": if quick { 7 } else { 8 }}),
        assumptions: vec!["payload bytes come from a fixed generator; the neighbour packet is Unreliable on the same channel, so the older packet may legitimately be skipped once the newer one was delivered".into(), "build profile: release with debug-assertions and overflow-checks on".into()],
        witness_names: WITNESSES.to_vec(), extra: json!({}), exhaustive: true } }
}
