//! Scenario construction shared by the properties decided on the link world.

use crate::explore::*;
use crate::lw::*;
use std::sync::Arc;
use uflow::verif::frame::Frame;
use uflow::SendMode;

pub const O_C01: u32 = 1 << 0;
pub const O_C02S: u32 = 1 << 1;
pub const O_LIVE: u32 = 1 << 2;
pub const O_C05: u32 = 1 << 3;
pub const O_FSIZE: u32 = 1 << 4;
pub const O_C12: u32 = 1 << 5;
pub const O_C12L: u32 = 1 << 6;
pub const O_C13: u32 = 1 << 7;
pub const O_C20: u32 = 1 << 8;
pub const O_C06B: u32 = 1 << 9;
pub const O_C04: u32 = 1 << 10;
pub const O_PANIC: u32 = 1 << 11;
pub const O_C11: u32 = 1 << 12;
/// the bounded-liveness clause of C02 reported under C11 (shared pool run by C11)
pub const O_C11POOL: u32 = 1 << 13;
/// every Reliable packet delivered within T_live of its submission (runs whose traffic lasts until the horizon); reported under the property named by the scenario tag
pub const O_DEADLINE: u32 = 1 << 14;
/// C14 on the link: RTT samples are ages of freshly acknowledged frames
pub const O_C14RTT: u32 = 1 << 15;

pub const WITNESSES: &[&str] = &[
    "resent fragment delivered", "duplicate frame delivered", "corrupted frame rejected by Frame::read", "packet id wrapped (20 bit)",
    "frame id wrapped (32 bit)", "sync frame emitted", "sync frame with packet id", "packet window full", "frame window full",
    "TimeSensitive packet dropped by sender", "packet cut across flushes", "rate limited (negative credit)", "send rate reduced",
    "frame delivered out of order", "receive allocation exhausted (sender stalled)", "multi-fragment packet delivered", "acknowledgement group with bit 31 set handed to a sender",
];

pub fn witnesses(cfg: &LwCfg, si: &ScriptInfo, tr: &Trace) -> u64 {
    let mut w = 0u64;
    let mut seen_tx: std::collections::HashSet<(usize, u32, u16)> = Default::default();
    let mut resent_em: std::collections::HashSet<usize> = Default::default();
    let mut frag_rounds: std::collections::HashMap<(usize, u32), std::collections::HashSet<(usize, u32)>> = Default::default();
    for (ei, e) in tr.ems.iter().enumerate() {
        match &e.frame {
            Some(Frame::DataFrame(df)) => {
                if df.sequence_id < cfg.fbase[e.side] { w |= 1 << 4; }
                for dg in df.datagrams.iter() {
                    if !seen_tx.insert((e.side, dg.sequence_id, dg.fragment_id)) { resent_em.insert(ei); }
                    if dg.sequence_id < cfg.pbase[e.side] { w |= 1 << 3; }
                    if dg.fragment_id_last > 0 { frag_rounds.entry((e.side, dg.sequence_id)).or_default().insert((e.round, e.step_no)); }
                }
            }
            Some(Frame::SyncFrame(sf)) => { w |= 1 << 5; if sf.next_packet_id.is_some() { w |= 1 << 6; } }
            _ => {}
        }
    }
    if frag_rounds.values().any(|s| s.len() >= 2) { w |= 1 << 10; }
    let mut rx_seen: std::collections::HashSet<(usize, usize)> = Default::default();
    let mut last_em: [i64; 2] = [-1, -1];
    for r in tr.rxs.iter() {
        if !r.parsed { w |= 1 << 2; }
        if resent_em.contains(&r.em) { w |= 1 << 0; }
        if !rx_seen.insert((r.side, r.em)) { w |= 1 << 1; }
        if (r.em as i64) < last_em[r.side] { w |= 1 << 13; }
        last_em[r.side] = last_em[r.side].max(r.em as i64);
    }
    for r in tr.rxs.iter().filter(|r| r.parsed) { if let Some(Frame::AckFrame(a)) = &tr.ems[r.em].frame { if a.frame_acks.iter().any(|g| g.bitfield >> 31 != 0) { w |= 1 << 16; } } }
    let mut prev_rate = [f64::MAX; 2];
    for o in tr.obs.iter() {
        let p = &o.probe;
        if (p.tx_packet_next.wrapping_sub(p.tx_packet_base) & 0xFFFFF) >= cfg.pwin { w |= 1 << 7; }
        if p.tx_frame_next.wrapping_sub(p.tx_frame_base) >= cfg.fwin { w |= 1 << 8; }
        if p.flush_alloc < 0 { w |= 1 << 11; }
        if p.send_rate < prev_rate[o.side] && prev_rate[o.side] != f64::MAX { w |= 1 << 12; }
        prev_rate[o.side] = p.send_rate;
        if p.send_queue_len > 0 && (p.tx_packet_next.wrapping_sub(p.tx_packet_base) & 0xFFFFF) < cfg.pwin && p.pending_len == 0 && p.tx_alloc > 0 { w |= 1 << 14; }
    }
    // TS dropped by sender: a TimeSensitive submission that never reached the wire
    let mut on_wire: std::collections::HashSet<usize> = Default::default();
    for e in tr.ems.iter() { if let Some(Frame::DataFrame(df)) = &e.frame { for dg in df.datagrams.iter() { if dg.fragment_id == 0 { if let Some(op) = identify(si, e.side, dg) { on_wire.insert(op); } } } } }
    for (i, o) in si.ops.iter().enumerate() { if let OpKind::Send { mode: SendMode::TimeSensitive, .. } = o.kind { if !on_wire.contains(&i) && o.round + 1 < tr.rounds { w |= 1 << 9; } } }
    for d in tr.dels.iter() { if let Some(op) = d.sub { if let OpKind::Send { size, .. } = si.ops[op].kind { if size > FRAG { w |= 1 << 15; } } } }
    w
}

#[derive(Clone)]
pub struct LwSpec {
    pub tag: String,
    pub cfg: LwCfg,
    pub script: Arc<ScriptInfo>,
    pub env: LwEnv,
    pub d: usize,
    pub oracles: u32,
    /// C11: packets submitted from this round on are the probes sent after the fault phase
    pub probe_round: usize,
}

pub fn verbose() -> bool { std::env::var("VERIF_TRACE").is_ok() }

pub fn print_trace(cfg: &LwCfg, si: &ScriptInfo, tr: &Trace) {
    println!("--- trace: cfg={} script={} rounds={} blackout={:?}", cfg.name(), si.name, tr.rounds, tr.blackout);
    for r in 0..tr.rounds {
        let mut line = String::new();
        for s in tr.subs.iter().filter(|s| s.round == r) { line.push_str(&format!(" send[{} ch{} #{} {:?} {}B]", s.side, s.ch, s.idx, s.mode, s.size)); }
        for e in tr.ems.iter().filter(|e| e.round == r) {
            let k = match &e.frame { Some(Frame::DataFrame(d)) => format!("data#{:x}[{}]", d.sequence_id, d.datagrams.iter().map(|g| format!("{:x}.{}/{}", g.sequence_id, g.fragment_id, g.fragment_id_last)).collect::<Vec<_>>().join(",")), Some(Frame::AckFrame(a)) => format!("ack(fb{:x} pb{:x} g{})", a.frame_window_base_id, a.packet_window_base_id, a.frame_acks.len()), Some(Frame::SyncFrame(s)) => format!("sync({:?},{:?})", s.next_frame_id, s.next_packet_id), _ => "?".into() };
            line.push_str(&format!(" {}>{}{}", e.side, k, if e.fate != Fate::Deliver { format!("!{:?}", e.fate) } else { String::new() }));
        }
        for d in tr.dels.iter().filter(|d| d.round == r) { line.push_str(&format!(" DELIVER[{}<-op{:?} {}B]", d.side, d.sub, d.len)); }
        let os: Vec<&Obs> = tr.obs.iter().filter(|o| o.round == r).collect();
        if !line.is_empty() || r < 3 || r + 1 == tr.rounds {
            println!("r{:4} t={:7}ms |{} || A: sbs={} pend={} rate={:.0} cr={} rtt={:?} | B: sbs={} pend={} rate={:.0}", r, os[0].t_ms, line, os[0].sbs, os[0].pending, os[0].probe.send_rate, os[0].probe.flush_alloc, os[0].rtt, os[1].sbs, os[1].pending, os[1].probe.send_rate);
        }
    }
}

pub fn eval_oracles(spec: &LwSpec, tr: &Trace) -> Vec<Violation> {
    let (cfg, si, o) = (&spec.cfg, &*spec.script, spec.oracles);
    let mut v: Vec<Violation> = Vec::new();
    if o & O_C01 != 0 { v.extend(oracle_c01(si, tr)); }
    if o & O_C02S != 0 { v.extend(oracle_c02_safety(si, tr)); }
    if o & O_C05 != 0 { v.extend(oracle_c05(si, tr)); }
    if o & O_FSIZE != 0 { v.extend(oracle_frame_size(tr)); }
    if o & O_C12 != 0 { v.extend(oracle_c12(cfg, si, tr, o & O_C12L != 0)); }
    if o & O_C13 != 0 { v.extend(oracle_c13(cfg, tr)); }
    if o & O_C20 != 0 { v.extend(oracle_c20(cfg, si, tr)); }
    if o & O_C06B != 0 { v.extend(crate::c06::oracle_sender_alloc(cfg, si, tr)); }
    if o & O_C04 != 0 { v.extend(oracle_c04_wire(si, tr)); }
    if o & O_LIVE != 0 { v.extend(oracle_c02_live(si, tr, "C02.live")); }
    if o & O_C11 != 0 { v.extend(oracle_c11(si, tr, spec.probe_round)); }
    if o & O_C11POOL != 0 { v.extend(oracle_c02_live(si, tr, "C11.stalled")); }
    if o & O_C14RTT != 0 { v.extend(oracle_rtt_samples(tr)); }
    if o & O_DEADLINE != 0 { v.extend(oracle_deadline(si, tr, &format!("{}.live", &spec.tag[..3]), 300_000)); }
    v
}

/// C04 on the wire: fragments carry exactly the submitted bytes at the right offsets and are at
/// most 1448 bytes; (delivery exactness is C01's content clause, also enabled for C04 runs).
pub fn oracle_c04_wire(si: &ScriptInfo, tr: &Trace) -> Option<Violation> {
    let mut op_of_id: std::collections::HashMap<(usize, u32), usize> = Default::default();
    for e in tr.ems.iter() {
        if let Some(Frame::DataFrame(df)) = &e.frame {
            for dg in df.datagrams.iter() {
                if dg.fragment_id == 0 { if let Some(op) = identify(si, e.side, dg) { op_of_id.entry((e.side, dg.sequence_id)).or_insert(op); } }
                if let Some(&op) = op_of_id.get(&(e.side, dg.sequence_id)) {
                    let p = si.payloads[op].as_ref().unwrap();
                    let nfrag = if p.len() == 0 { 1 } else { (p.len() + FRAG - 1) / FRAG };
                    let a = dg.fragment_id as usize * FRAG; let b = (a + FRAG).min(p.len());
                    if dg.fragment_id_last as usize != nfrag - 1 || a > p.len() || dg.data[..] != p[a.min(p.len())..b] {
                        return Some(viol("C04.fragment", "C04.fragment".into(), format!("side {} emitted fragment {}/{} of packet op {} ({} bytes) with wrong count or contents ({} data bytes)", e.side, dg.fragment_id, dg.fragment_id_last, op, p.len(), dg.data.len())));
                    }
                }
            }
        }
    }
    None
}

pub fn lw_scenario(spec: LwSpec) -> Scenario {
    let name = format!("{}|{}|{}|{}|d{}", spec.tag, spec.cfg.name(), spec.script.name, spec.env.name(), spec.d);
    let d = spec.d;
    let run = move |ch: &mut Chooser| -> ExecResult {
        let tr = run_lw(&spec.cfg, &spec.script, &spec.env, ch, None);
        if verbose() { print_trace(&spec.cfg, &spec.script, &tr); }
        let violations = eval_oracles(&spec, &tr);
        ExecResult {
            violations, panic: None, outcome: outcome_hash(&tr), states: state_hashes(&tr),
            transitions: tr.obs.iter().filter(|o| o.stepped).count() as u64 + tr.rxs.len() as u64,
            witnesses: witnesses(&spec.cfg, &spec.script, &tr),
            sample: if ch.taken.iter().any(|&c| c != 0) && ch.taken.len() % 7 == 3 { Some(render(&spec.cfg, &spec.script, ch, &tr)) } else { None },
        }
    };
    Scenario { name, d, run: Box::new(run) }
}

pub const MODES: [SendMode; 4] = [SendMode::Unreliable, SendMode::Reliable, SendMode::Persistent, SendMode::TimeSensitive];

/// All scripts of exactly n packets sent by side A over the given channels, modes and sizes.
/// `spread`: packet k is submitted in round k*spread.
pub fn all_scripts(n: usize, chans: &[u8], modes: &[SendMode], sizes: &[usize], spread: usize) -> Vec<Vec<Op>> {
    let alpha: Vec<(u8, SendMode, usize)> = chans.iter().flat_map(|&c| modes.iter().flat_map(move |&m| sizes.iter().map(move |&s| (c, m, s)))).collect();
    let mut out = Vec::new();
    let mut idx = vec![0usize; n];
    loop {
        let ops: Vec<Op> = idx.iter().enumerate().map(|(k, &i)| send(k * spread, 0, alpha[i].0, alpha[i].1, alpha[i].2)).collect();
        // tiny payloads are identified by content: at most one packet of each (channel index, size<6) pair is fine, but two empty packets are indistinguishable
        let zero = ops.iter().filter(|o| matches!(o.kind, OpKind::Send { size: 0, .. })).count();
        if zero <= 1 { out.push(ops); }
        let mut k = n; let mut done = true;
        while k > 0 { k -= 1; idx[k] += 1; if idx[k] < alpha.len() { done = false; break; } idx[k] = 0; }
        if done || n == 0 { break; }
    }
    out
}

pub fn collision_scripts() -> Vec<(&'static str, Vec<Op>)> {
    use SendMode::*;
    vec![
        ("rel-then-unrel-same-channel", vec![send(0, 0, 0, Reliable, 40), send(0, 0, 0, Unreliable, 40), send(1, 0, 0, Unreliable, 50), send(1, 0, 1, Unreliable, 60)]),
        ("frag3-persistent-between-small", vec![send(0, 0, 1, Unreliable, 10), send(0, 0, 0, Persistent, 3000), send(0, 0, 1, Reliable, 64), send(0, 0, 0, Unreliable, 30)]),
        ("cycle-window-3x", (0..12).map(|i| send(i / 2, 0, (i % 2) as u8, if i % 3 == 0 { Reliable } else { Unreliable }, 30 + i)).collect()),
        ("timesensitive-mix", vec![send(0, 0, 0, TimeSensitive, 1448), send(0, 0, 0, TimeSensitive, 1448), send(0, 0, 0, Reliable, 100), send(1, 0, 0, TimeSensitive, 20), send(2, 0, 0, Unreliable, 21)]),
        ("both-directions", vec![send(0, 0, 0, Reliable, 100), send(0, 1, 0, Reliable, 101), send(0, 0, 1, Unreliable, 3000), send(1, 1, 1, Persistent, 1500), send(1, 0, 0, Unreliable, 7), send(2, 1, 0, Reliable, 0)]),
        ("reliable-chain-2ch", vec![send(0, 0, 0, Reliable, 20), send(0, 0, 1, Reliable, 2000), send(1, 0, 0, Reliable, 22), send(1, 0, 1, Persistent, 23), send(2, 0, 0, Unreliable, 24), send(2, 0, 1, Reliable, 25)]),
        ("persistent-frag-then-reliable", vec![send(0, 0, 0, Persistent, 4400), send(0, 0, 0, Reliable, 10), send(1, 0, 0, Persistent, 1449), send(1, 0, 0, Unreliable, 1)]),
        // a partly received multi-fragment packet is passed over by the window and its slot is reused one window later (windows 2, 4, 8)
        ("frag-slot-reuse", vec![send(0, 0, 0, Unreliable, 3000), send(1, 0, 1, Reliable, 10), send(1, 0, 0, Unreliable, 11), send(2, 0, 1, Reliable, 12), send(3, 0, 0, Reliable, 3001), send(4, 0, 0, Unreliable, 2000), send(4, 0, 1, Persistent, 4000), send(5, 0, 0, Unreliable, 13), send(6, 0, 1, Reliable, 2001)]),
        ("frag-slot-reuse-ts", vec![send(0, 0, 0, TimeSensitive, 4000), send(0, 0, 0, Unreliable, 2900), send(2, 0, 0, Unreliable, 2901), send(3, 0, 1, Reliable, 20), send(4, 0, 0, Reliable, 4001), send(5, 0, 1, Unreliable, 2902), send(6, 0, 0, Reliable, 21), send(7, 0, 1, Reliable, 2903)]),
        // every packet fills a frame of its own, all leave in one flush on a warm connection, modes alternate
        ("full-frames-mixed-modes", vec![send(0, 0, 0, Reliable, 1448), send(0, 0, 1, Unreliable, 1448), send(0, 0, 0, Persistent, 1448), send(0, 0, 1, TimeSensitive, 1447), send(0, 0, 2, Reliable, 1446), send(1, 0, 1, Unreliable, 9)]),
        ("burst-8-unreliable-then-reliable", (0..8).map(|i| send(0, 0, 0, Unreliable, 100 + i)).chain(std::iter::once(send(1, 0, 0, Reliable, 99))).collect()),
    ]
}

pub fn cfg_grid(quick: bool) -> Vec<LwCfg> {
    let mut v = Vec::new();
    let wins: &[(u32, u32)] = if quick { &[(4, 4), (2, 8), (4096, 4096)] } else { &[(2, 4), (4, 4), (4, 8), (8, 8), (2, 64), (4096, 4096)] };
    for &(pw, fw) in wins {
        let bases: Vec<([u32; 2], [u32; 2])> = vec![
            ([0, 77], [0, 1000]),
            ([0xFFFFE, 0xFFFFF], [0xFFFF_FFFE, 0xFFFF_FFFF]),
            ([(0x100000 - pw + 1) & 0xFFFFF, 5], [0xFFFF_FFFFu32 - fw + 2, 0x8000_0000]),
        ];
        for (pb, fb) in bases {
            v.push(LwCfg { pwin: pw, fwin: fw, pbase: pb, fbase: fb, ..LwCfg::small() });
        }
    }
    v
}

pub const DELTAS_STD: &[u64] = &[20, 0, 150, 2000];
pub const DELTAS_WIDE: &[u64] = &[20, 0, 1, 150, 2000, 5000];

pub fn env_faulty(dev_rounds: usize, max_rounds: usize) -> LwEnv {
    LwEnv { fates: FATES_ALL, deltas: DELTAS_STD, dev_rounds, dev_start: 0, max_rounds, skip_choice: true, flush_choice: false, blackouts: &[], stop_when_idle: true, fair_delta: 50, slow_after: usize::MAX, slow_delta: 250, fuel: 2_000_000, shifts: &[] }
}

/// Warm start: a Reliable packet on channel 63 at round 0, then the script shifted by `w` rounds,
/// so that RTT estimate and send rate are established before the deviation window opens.
pub fn warm(ops: &[Op], w: usize) -> Vec<Op> {
    let mut v = vec![send(0, 0, 63, SendMode::Reliable, 30)];
    if ops.iter().any(|o| o.side == 1) { v.push(send(0, 1, 63, SendMode::Reliable, 31)); }
    v.extend(ops.iter().map(|o| Op { round: o.round + w, ..*o }));
    v
}
