//! C15: only genuine, fresh acknowledgements change sender state. Twin runs on the link world: a
//! baseline execution and the same execution with one extra ack frame handed to the sender at
//! round r; from r on everything observable about the sender must be identical.

use crate::explore::*;
use crate::lw::*;
use crate::lwprops::*;
use crate::report::Summary;
use crate::PropRun;
use serde_json::json;
use std::sync::Arc;
use uflow::verif::frame::*;
use uflow::verif::Serialize;
use uflow::SendMode;

pub const LETTERS: &[&str] = &[
    "group for the newest frame with the wrong nonce", "group over the three oldest logged frames with the wrong nonce", "group for a frame id not sent yet (nonce 0)", "group for a frame id not sent yet (nonce 1)",
    "group for a frame just below the frame log", "bitfield reaching past the newest frame", "group spanning a forgotten and a logged frame", "dud group (empty bitfield)",
    "verbatim replay of the newest genuine ack frame", "verbatim replay of the 2nd newest genuine ack frame", "verbatim replay of the oldest genuine ack frame", "replay of the newest genuine ack frame with all groups repeated twice",
    "frame window base one past the newest frame sent (no groups)", "frame window base two past the newest frame sent", "frame window base 1000 past the newest frame sent", "frame window base behind the sender's (stale)",
    "packet window base 64 past the next packet id", "packet window base half the id space ahead",
    "MERGED: first acknowledgement of the oldest unacknowledged logged frame, once alone and once in one group with a later frame that is already acknowledged (the two runs are compared with each other)",
    "COMBINED: the same first acknowledgement alone vs. in one ack frame followed by a group for the newest frame with the wrong nonce",
    "COMBINED: the same, the wrong-nonce group first",
    "COMBINED: the same first acknowledgement alone vs. followed by a group for a frame id not sent yet",
    "COMBINED: the same, the group for the unsent frame first",
];
const MERGED: usize = 18;

/// Builds the injected ack frame from what the sender (side 0) has emitted / been handed so far.
fn craft(letter: usize, tr: &Trace, cfg: &LwCfg) -> Option<Vec<u8>> {
    let side = 0;
    let p = &tr.obs.iter().filter(|o| o.side == side).last()?.probe;
    let frames: Vec<&DataFrame> = tr.ems.iter().filter(|e| e.side == side).filter_map(|e| if let Some(Frame::DataFrame(d)) = &e.frame { Some(d) } else { None }).collect();
    let nonce_of = |id: u32| frames.iter().find(|d| d.sequence_id == id).map(|d| d.nonce);
    let newest = frames.last().map(|d| d.sequence_id);
    let genuine: Vec<&AckFrame> = tr.rxs.iter().filter(|r| r.side == side && r.parsed).filter_map(|r| if let Some(Frame::AckFrame(a)) = &tr.ems[r.em].frame { Some(a) } else { None }).collect();
    let mk = |groups: Vec<AckGroup>| Some(Frame::AckFrame(AckFrame { frame_window_base_id: p.tx_frame_base, packet_window_base_id: p.tx_packet_base, frame_acks: groups }).write().to_vec());
    let _ = cfg;
    // frames sent in the current round (after the last probe) count as sent
    let next = newest.map_or(p.tx_frame_next, |n| n.wrapping_add(1));
    match letter {
        0 => { let id = newest?; mk(vec![AckGroup { base_id: id, bitfield: 1, nonce: !nonce_of(id)? }]) }
        1 => { let b = p.tx_frame_log_base; if p.tx_frame_log_len < 1 { return None; } let n = p.tx_frame_log_len.min(3); let mut x = false; for i in 0..n { x ^= nonce_of(b.wrapping_add(i))?; } mk(vec![AckGroup { base_id: b, bitfield: (1 << n) - 1, nonce: !x }]) }
        2 => mk(vec![AckGroup { base_id: next, bitfield: 1, nonce: false }]),
        3 => mk(vec![AckGroup { base_id: next.wrapping_add(3), bitfield: 0b101, nonce: true }]),
        4 => mk(vec![AckGroup { base_id: p.tx_frame_log_base.wrapping_sub(1), bitfield: 1, nonce: false }, AckGroup { base_id: p.tx_frame_log_base.wrapping_sub(1), bitfield: 1, nonce: true }]),
        5 => { let id = newest?; mk(vec![AckGroup { base_id: id, bitfield: 0x8000_0001, nonce: nonce_of(id)? }, AckGroup { base_id: id, bitfield: 0b11, nonce: nonce_of(id)? }]) }
        6 => { if p.tx_frame_log_len < 1 { return None; } let b = p.tx_frame_log_base; mk(vec![AckGroup { base_id: b.wrapping_sub(1), bitfield: 0b11, nonce: nonce_of(b)? }]) }
        7 => mk(vec![AckGroup { base_id: newest.unwrap_or(next), bitfield: 0, nonce: true }]),
        8 => genuine.last().map(|a| Frame::AckFrame((*a).clone()).write().to_vec()),
        9 => if genuine.len() >= 2 { Some(Frame::AckFrame(genuine[genuine.len() - 2].clone()).write().to_vec()) } else { None },
        10 => genuine.first().map(|a| Frame::AckFrame((*a).clone()).write().to_vec()),
        11 => genuine.last().map(|a| { let mut b = (*a).clone(); let g = b.frame_acks.clone(); b.frame_acks.extend(g); Frame::AckFrame(b).write().to_vec() }),
        12 | 13 | 14 | 15 => { let fb = match letter { 12 => next.wrapping_add(1), 13 => next.wrapping_add(2), 14 => next.wrapping_add(1000), _ => p.tx_frame_base.wrapping_sub(1) };
            Some(Frame::AckFrame(AckFrame { frame_window_base_id: fb, packet_window_base_id: p.tx_packet_base, frame_acks: vec![] }).write().to_vec()) }
        16 | 17 => { let pb = if letter == 16 { p.tx_packet_next.wrapping_add(64) & 0xFFFFF } else { p.tx_packet_next.wrapping_add(0x80000) & 0xFFFFF };
            Some(Frame::AckFrame(AckFrame { frame_window_base_id: p.tx_frame_base, packet_window_base_id: pb, frame_acks: vec![] }).write().to_vec()) }
        18 | 118 => {
            // frames still logged whose acknowledgement never reached the sender, and logged frames that are acknowledged
            let mut acked: std::collections::HashSet<u32> = Default::default();
            for a in genuine.iter() { for g in a.frame_acks.iter() { for b in 0..32u32 { if g.bitfield >> b & 1 != 0 { acked.insert(g.base_id.wrapping_add(b)); } } } }
            let logged: Vec<u32> = (0..p.tx_frame_log_len).map(|i| p.tx_frame_log_base.wrapping_add(i)).collect();
            let old = *logged.iter().find(|id| !acked.contains(id) && nonce_of(**id).is_some())?;
            let newer = *logged.iter().rev().find(|id| acked.contains(id) && id.wrapping_sub(old) >= 1 && id.wrapping_sub(old) < 32 && nonce_of(**id).is_some())?;
            if letter == 18 { mk(vec![AckGroup { base_id: old, bitfield: 1, nonce: nonce_of(old)? }]) }
            else { mk(vec![AckGroup { base_id: old, bitfield: 1 | 1 << newer.wrapping_sub(old), nonce: nonce_of(old)? ^ nonce_of(newer)? }]) }
        }
        119 | 120 | 121 | 122 => {
            let mut acked: std::collections::HashSet<u32> = Default::default();
            for a in genuine.iter() { for g in a.frame_acks.iter() { for b in 0..32u32 { if g.bitfield >> b & 1 != 0 { acked.insert(g.base_id.wrapping_add(b)); } } } }
            let logged: Vec<u32> = (0..p.tx_frame_log_len).map(|i| p.tx_frame_log_base.wrapping_add(i)).collect();
            let old = *logged.iter().find(|id| !acked.contains(id) && nonce_of(**id).is_some())?;
            let good = AckGroup { base_id: old, bitfield: 1, nonce: nonce_of(old)? };
            let bogus = if letter <= 120 { let id = newest?; if id == old || acked.contains(&id) { return None; } AckGroup { base_id: id, bitfield: 1, nonce: !nonce_of(id)? } } else { AckGroup { base_id: next, bitfield: 1, nonce: true } };
            mk(if letter % 2 == 1 { vec![good, bogus] } else { vec![bogus, good] })
        }
        _ => None,
    }
}

fn compare(base: &Trace, twin: &Trace, from_round: usize, what: &str) -> Vec<Violation> {
    let mut v = Vec::new();
    let a: Vec<&Em> = base.ems.iter().filter(|e| e.side == 0 && e.round >= from_round).collect();
    let b: Vec<&Em> = twin.ems.iter().filter(|e| e.side == 0 && e.round >= from_round).collect();
    for i in 0..a.len().max(b.len()) {
        let (x, y) = (a.get(i), b.get(i));
        let same = match (x, y) { (Some(x), Some(y)) => x.round == y.round && x.len == y.len && x.frame == y.frame, _ => false };
        if !same {
            let d = |e: Option<&&Em>| e.map_or("nothing".to_string(), |e| format!("round {} {} B {}", e.round, e.len, match &e.frame { Some(Frame::DataFrame(d)) => format!("data#{:x} {:?}", d.sequence_id, d.datagrams.iter().map(|g| (g.sequence_id, g.fragment_id)).collect::<Vec<_>>()), Some(Frame::AckFrame(_)) => "ack".into(), Some(Frame::SyncFrame(s)) => format!("sync {:?}", s), _ => "?".into() }));
            v.push(viol("C15.emission", "C15.emission".into(), format!("{}: the sender's emissions differ from the run without it: {} vs {}", what, d(x), d(y))));
            break;
        }
    }
    for (oa, ob) in base.obs.iter().zip(twin.obs.iter()).filter(|(o, _)| o.side == 0 && o.round >= from_round) {
        if oa.rtt != ob.rtt { v.push(viol("C15.rtt", "C15.rtt".into(), format!("{}: RTT estimate in round {} is {:?}, without it {:?}", what, oa.round, ob.rtt, oa.rtt))); break; }
        if oa.probe.send_rate != ob.probe.send_rate { v.push(viol("C15.rate", "C15.rate".into(), format!("{}: allowed send rate in round {} is {}, without it {}", what, oa.round, ob.probe.send_rate, oa.probe.send_rate))); break; }
        if oa.pending != ob.pending || oa.sbs != ob.sbs || oa.probe.resend_len != ob.probe.resend_len || oa.probe.pending_len != ob.probe.pending_len || oa.probe.tx_frame_log_len != ob.probe.tx_frame_log_len {
            v.push(viol("C15.state", "C15.state".into(), format!("{}: sender state in round {} differs: pending {}/{} send_buffer {}/{} resend queue {}/{} frame log {}/{}", what, oa.round, ob.pending, oa.pending, ob.sbs, oa.sbs, ob.probe.resend_len, oa.probe.resend_len, ob.probe.tx_frame_log_len, oa.probe.tx_frame_log_len))); break;
        }
    }
    if base.dels.len() != twin.dels.len() { v.push(viol("C15.state", "C15.delivery".into(), format!("{}: {} packets delivered, without it {}", what, twin.dels.len(), base.dels.len()))); }
    v
}

pub fn build(quick: bool) -> PropRun {
    let mut scs = Vec::new();
    let window = if quick { 24 } else { 40 };
    let d = 1; // one fate deviation in the baseline (a lost acknowledgement leaves older frames unacknowledged)
    use SendMode::*;
    let mut scripts: Vec<(String, Vec<Op>)> = collision_scripts().into_iter().take(if quick { 5 } else { 8 }).map(|(n, o)| (n.to_string(), o)).collect();
    scripts.push(("steady-stream".into(), (0..12).map(|i| send(i, 0, (i % 2) as u8, if i % 2 == 0 { Reliable } else { Unreliable }, 300 + 100 * (i % 4))).collect()));
    for (sname, ops) in scripts {
        for cfg in [LwCfg::small(), LwCfg { pwin: 4096, fwin: 4096, pbase: [0xFFFFE, 5], fbase: [0xFFFF_FFFD, 9], bw: [50_000, 50_000], ..LwCfg::small() }] {
            let si = Arc::new(ScriptInfo::new(ops.clone()));
            let env = LwEnv { fates: if quick { &[Fate::Deliver, Fate::Drop] } else { &[Fate::Deliver, Fate::Drop, Fate::Dup, Fate::Delay3] }, deltas: &[20], dev_rounds: if d == 0 { 0 } else { 10 }, dev_start: 0, max_rounds: window + 60, skip_choice: false, flush_choice: false,
                              blackouts: &[], stop_when_idle: false, fair_delta: 20, slow_after: usize::MAX, slow_delta: 250, fuel: 2_000_000, shifts: &[] };
            let name = format!("C15.twin.{}|{}|{}|{}|w{}|d{}", sname, cfg.name(), si.name, env.name(), window, d);
            let run = move |ch: &mut Chooser| -> ExecResult {
                let r = ch.free(window + 1);
                let k = if r > 0 { ch.free(LETTERS.len()) } else { 0 };
                let skip = ch.taken.len();
                let mut base = run_lw(&cfg, &si, &env, ch, None);
                let mut violations = Vec::new();
                let mut injected = false;
                if r > 0 && k >= MERGED {
                    // the reference run is the one with the first-time acknowledgement alone
                    let mut c1 = Chooser::new(ch.taken[skip..].to_vec(), vec![]);
                    let mut ok = false;
                    let mut inj = |round: usize, side: usize, tr: &Trace, _hc: &mut uflow::verif::HalfConnection| -> Vec<Vec<u8>> { if round == r - 1 && side == 0 { if let Some(b) = craft(18, tr, &cfg) { ok = true; return vec![b]; } } vec![] };
                    base = run_lw(&cfg, &si, &env, &mut c1, Some(&mut inj));
                    if !ok { return ExecResult { outcome: 9, ..Default::default() }; }
                }
                let kk = if k >= MERGED { 100 + k } else { k };
                if r > 0 {
                    let mut c2 = Chooser::new(ch.taken[skip..].to_vec(), vec![]);
                    let mut inj = |round: usize, side: usize, tr: &Trace, _hc: &mut uflow::verif::HalfConnection| -> Vec<Vec<u8>> {
                        if round == r - 1 && side == 0 { if let Some(b) = craft(kk, tr, &cfg) { injected = true; return vec![b]; } }
                        vec![]
                    };
                    let twin = run_lw(&cfg, &si, &env, &mut c2, Some(&mut inj));
                    if verbose() { print_trace(&cfg, &si, &twin); }
                    if injected { violations = compare(&base, &twin, r - 1, &format!("extra ack frame ({}) handed to the sender in round {}", LETTERS[k], r - 1)); }
                }
                ExecResult { violations, panic: None, outcome: outcome_hash(&base) ^ ((r as u64) << 48) ^ ((k as u64) << 56) ^ (injected as u64), states: state_hashes(&base), transitions: 2 * base.obs.len() as u64, witnesses: witnesses(&cfg, &si, &base) | (injected as u64) << 20,
                             sample: if injected && r == 7 && k % 4 == 0 { Some(format!("script {} round {}: {}", si.name, r - 1, LETTERS[k])) } else { None } }
            };
            scs.push(Scenario { name, d, run: Box::new(run) });
        }
    }
    let mut w = WITNESSES.to_vec(); while w.len() < 20 { w.push("-"); } w.push("an ack frame was injected");
    PropRun { level: "model_checking", scenarios: scs, units: vec![], replay_case: None, summary: Summary {
        rule: "for every baseline (script x configuration x fault choices), every round r of the window and every letter of the ack alphabet (wrong nonce, unsent / forgotten frame ids, bitfields past the log, empty groups, verbatim and doubled replays of genuine ack frames with window-base fields the sender already knows; frame / packet window bases beyond anything sent, and stale ones) the twin run with that one extra frame is compared with the baseline from r on: emitted frames, RTT estimate, allowed rate, pending flag, send buffer size, queue lengths, deliveries".into(),
        bounds: json!({"window_rounds": window, "alphabet": LETTERS, "baseline_faults_d": d, "baselines": if quick { 12 } else { 18 }}),
        assumptions: vec!["link world as for C01; the twin run receives the same environment answers as the baseline (same choice vector), so any divergence is caused by the injected frame".into()],
        witness_names: w, extra: json!({}), exhaustive: true } }
}
