//! Receiver arrival sweep (C01, C02 safety): a real sending HalfConnection produces the datagrams of a
//! small script (its packet window exactly full, nothing acknowledged); a lone real receiving
//! HalfConnection is then handed every feasible arrival history of those datagrams:
//!   * of the first transmissions any subset arrives, in sending order (a frame overtaken by a later
//!     one is rejected by the frame window, so reordering is loss);
//!   * afterwards up to L retransmissions of Reliable / Persistent packets arrive in any order, each in
//!     a frame of its own with a fresh frame id, as the sender's resend queue emits them. Unreliable
//!     packets are transmitted once.
//! After every arrival the receiver steps and receives as Client::step / Server::step do. Oracle: per
//! channel the delivered packets have strictly increasing submission indices, none twice, payloads
//! byte-identical, and nothing is delivered on a channel past an undelivered Reliable packet.

use crate::explore::{fnv, Violation};
use crate::lw::*;
use crate::sweep::*;
use uflow::verif::frame::{DataFrame, Datagram, Frame};
use uflow::verif::*;
use uflow::SendMode;

#[derive(Clone, Debug)]
pub struct RxCase { pub chans: Vec<u8>, pub modes: Vec<u8>, pub wrap: bool, pub firsts: u32, pub retrans: Vec<u8> }

pub fn case_name(c: &RxCase) -> String {
    format!("case:rx:{}:{}:{}:{}:{}", c.chans.iter().map(|x| x.to_string()).collect::<String>(), c.modes.iter().map(|x| x.to_string()).collect::<String>(), c.wrap as u8, c.firsts, c.retrans.iter().map(|x| x.to_string()).collect::<String>())
}
pub fn case_parse(s: &str) -> Option<RxCase> {
    let f: Vec<&str> = s.strip_prefix("case:rx:")?.split(':').collect();
    let digits = |x: &str| x.chars().map(|c| c.to_digit(10).unwrap_or(0) as u8).collect::<Vec<u8>>();
    Some(RxCase { chans: digits(f[0]), modes: digits(f[1]), wrap: f[2] == "1", firsts: f[3].parse().ok()?, retrans: digits(f.get(4).copied().unwrap_or("")) })
}

const MODES: [SendMode; 3] = [SendMode::Unreliable, SendMode::Reliable, SendMode::Persistent];

fn cfg_for(n: usize, wrap: bool) -> LwCfg {
    // window sizes are powers of two: 4 packets fill their window exactly, 5 sit in a window of 8
    LwCfg { pwin: (n as u32).next_power_of_two(), fwin: 64, pbase: if wrap { [0xFFFFE, 5] } else { [0, 77] }, fbase: if wrap { [0xFFFF_FFFD, 9] } else { [0, 1000] }, bw: [2_000_000, 2_000_000], ..LwCfg::small() }
}

/// The datagrams a real sender emits for the script (first occurrence of each packet), in packet order.
pub fn sender_datagrams(chans: &[u8], modes: &[u8], wrap: bool) -> Option<Vec<Datagram>> {
    let n = chans.len();
    let cfg = cfg_for(n, wrap);
    set_time_ms(0); seed(7); set_fuel(2_000_000);
    let mut hc = HalfConnection::new(cfg.half(0));
    for i in 0..n { hc.send(payload(0, chans[i], i as u32, 24), chans[i], MODES[modes[i] as usize]); }
    let mut out: Vec<Option<Datagram>> = vec![None; n];
    let mut now = 0u64;
    for _ in 0..400 {
        // without an RTT estimate the credit admits one small frame per step; 30 ms steps let the new packets out between the resends
        now += 30; set_time_ms(now);
        hc.step();
        let mut fs = FS(vec![]); hc.flush(&mut fs);
        for f in fs.0 { if let Some(Frame::DataFrame(df)) = Frame::read(&f) { for dg in df.datagrams { let k = (dg.sequence_id.wrapping_sub(cfg.pbase[0]) & 0xFFFFF) as usize; if k < n && out[k].is_none() { out[k] = Some(dg); } } } }
        if out.iter().all(|x| x.is_some()) { break; }
    }
    if std::env::var("VERIF_TRACE").is_ok() { { let p = hc.verif_probe(); println!("sendq {} pending {} resend {} credit {} rate {} txp {:x}..{:x} txf {:x}..{:x}", p.send_queue_len, p.pending_len, p.resend_len, p.flush_alloc, p.send_rate, p.tx_packet_base, p.tx_packet_next, p.tx_frame_base, p.tx_frame_next); } println!("emitted {:?}", out.iter().map(|x| x.is_some()).collect::<Vec<_>>()); }
    set_fuel(u64::MAX);
    out.into_iter().collect()
}

pub fn run_case(c: &RxCase, dgs: &[Datagram]) -> (Vec<Violation>, u64, Option<String>) {
    let n = c.chans.len();
    let r = guarded(|| {
        let cfg = cfg_for(n, c.wrap);
        set_time_ms(0); seed(7); set_fuel(2_000_000);
        let mut rx = HalfConnection::new(cfg.half(1));
        let mut fid = cfg.fbase[0];
        let mut now = 0u64;
        let mut delivered: Vec<usize> = Vec::new();
        let mut v: Vec<Violation> = Vec::new();
        let arrivals: Vec<usize> = (0..n).filter(|i| c.firsts >> i & 1 != 0).chain(c.retrans.iter().map(|x| *x as usize)).collect();
        let mut h = 0xcbf29ce484222325u64;
        for &k in arrivals.iter() {
            now += 20; set_time_ms(now);
            let mut fs = FS(vec![]); rx.flush(&mut fs); drop(fs);
            rx.handle_data_frame(DataFrame { sequence_id: fid, nonce: false, datagrams: vec![dgs[k].clone()] });
            fid = fid.wrapping_add(1);
            rx.step();
            let mut ps = PS(vec![]); rx.receive(&mut ps);
            for p in ps.0 {
                match (0..n).find(|&i| payload(0, c.chans[i], i as u32, 24)[..] == p[..]) {
                    Some(i) => delivered.push(i),
                    None => v.push(viol("C01.content", "C01.content:rx-sweep".into(), format!("a packet of {} bytes was delivered that is none of the {} submitted ones", p.len(), n))),
                }
            }
            h = fnv(h, delivered.len() as u64);
        }
        set_fuel(u64::MAX);
        // oracle
        for ch in 0..64u8 {
            let seq: Vec<usize> = delivered.iter().copied().filter(|&i| c.chans[i] == ch).collect();
            for w in seq.windows(2) {
                if w[1] == w[0] { v.push(viol("C01.duplicate", "C01.duplicate:rx-sweep".into(), format!("channel {}: packet #{} was delivered twice (deliveries {:?})", ch, w[0], delivered))); }
                else if w[1] < w[0] { v.push(viol("C01.order", "C01.order:rx-sweep".into(), format!("channel {}: packet #{} was handed to the application after packet #{} (deliveries in order: {:?})", ch, w[1], w[0], delivered))); }
            }
            let mut seen: Vec<usize> = Vec::new();
            for &i in seq.iter() { if seen.contains(&i) && !v.iter().any(|x| x.sig.starts_with("C01.duplicate")) { v.push(viol("C01.duplicate", "C01.duplicate:rx-sweep".into(), format!("channel {}: packet #{} was delivered twice (deliveries {:?})", ch, i, delivered))); } seen.push(i); }
            // Reliable never skipped: at the moment packet j is delivered, every earlier Reliable packet of the channel has been delivered
            for (pos, &j) in delivered.iter().enumerate() {
                if c.chans[j] != ch { continue; }
                for i in 0..j { if c.chans[i] == ch && c.modes[i] == 1 && !delivered[..pos].contains(&i) { v.push(viol("C02.skip", "C02.skip:rx-sweep".into(), format!("channel {}: packet #{} was delivered although the earlier Reliable packet #{} of that channel had not been (deliveries {:?})", ch, j, i, delivered))); } }
            }
        }
        for &i in delivered.iter() { h = fnv(h, i as u64 + 1); }
        (v, h)
    });
    set_fuel(u64::MAX);
    match r { Ok((v, h)) => (v, h, None), Err(p) => (vec![], 0xDEAD, Some(p)) }
}

/// Channel patterns up to renaming (restricted growth strings over at most 3 channels).
fn channel_patterns(n: usize) -> Vec<Vec<u8>> {
    let mut out = Vec::new();
    fn rec(n: usize, cur: &mut Vec<u8>, maxc: u8, out: &mut Vec<Vec<u8>>) {
        if cur.len() == n { out.push(cur.clone()); return; }
        for c in 0..=(maxc.min(2)) { cur.push(c); rec(n, cur, maxc.max(c + 1), out); cur.pop(); }
    }
    rec(n, &mut Vec::new(), 0, &mut out);
    out
}

pub fn units(quick: bool, clause_filter: &'static str) -> Vec<Unit> {
    let mut units: Vec<Unit> = Vec::new();
    let sizes: &[usize] = if quick { &[4] } else { &[4, 5] };
    let max_retrans = if quick { 3 } else { 4 };
    for &n in sizes {
        for chans in channel_patterns(n) {
            for wrap in [false, true] {
                if quick && wrap && chans.iter().any(|c| *c == 2) { continue; }
                let chans = chans.clone();
                units.push(Box::new(move |acc: &mut Acc| {
                    let nm = 3usize.pow(n as u32);
                    for mi in 0..nm {
                        let modes: Vec<u8> = (0..n).map(|i| ((mi / 3usize.pow(i as u32)) % 3) as u8).collect();
                        if !modes.iter().any(|m| *m != 0) { continue; }
                        let dgs = match sender_datagrams(&chans, &modes, wrap) { Some(d) => d, None => { acc.violation(format!("case:rx-gen:{:?}:{:?}", chans, modes), viol("machinery", "machinery:rx-sweep-generation".into(), "the sender did not emit every packet of the script".into())); continue; } };
                        let resendable: Vec<u8> = (0..n as u8).filter(|i| modes[*i as usize] != 0).collect();
                        // all retransmission sequences of length 0..=max_retrans over the resendable packets
                        let mut seqs: Vec<Vec<u8>> = vec![vec![]];
                        let mut last: Vec<Vec<u8>> = vec![vec![]];
                        for _ in 0..max_retrans { let mut next = Vec::new(); for s in last.iter() { for &r in resendable.iter() { let mut t = s.clone(); t.push(r); next.push(t); } } seqs.extend(next.iter().cloned()); last = next; }
                        for firsts in 0..(1u32 << n) {
                            for rs in seqs.iter() {
                                let c = RxCase { chans: chans.clone(), modes: modes.clone(), wrap, firsts, retrans: rs.clone() };
                                let (v, h, p) = run_case(&c, &dgs);
                                acc.evals += 1; acc.transitions += (firsts.count_ones() as usize + rs.len()) as u64; acc.outcomes.insert(h);
                                if p.is_some() { acc.panics += 1; }
                                for x in v { if clause_filter.is_empty() || x.clause.starts_with(clause_filter) || x.clause == "machinery" { acc.violation(case_name(&c), x); } }
                            }
                        }
                    }
                    if chans.iter().all(|c| *c == 0) && !wrap { acc.sample(format!("rx sweep: {} packets on channels {:?}, every mode assignment x every subset of first transmissions x every retransmission sequence of <= {} arrivals", n, chans, max_retrans)); }
                }));
            }
        }
    }
    units
}

pub fn replay_case(case: &str) -> Vec<Violation> {
    match case_parse(case) {
        Some(c) => {
            let dgs = match sender_datagrams(&c.chans, &c.modes, c.wrap) { Some(d) => d, None => { println!("the sender did not emit every packet"); return vec![] } };
            println!("receiver arrival case: channels {:?} modes {:?} (0 U, 1 R, 2 P) wrap {} first transmissions arriving {:#b} then retransmissions {:?}", c.chans, c.modes, c.wrap, c.firsts, c.retrans);
            for (i, d) in dgs.iter().enumerate() { println!("  packet #{}: id {:x} channel {} window_parent_lead {} channel_parent_lead {}", i, d.sequence_id, d.channel_id, d.window_parent_lead, d.channel_parent_lead); }
            let (v, _, p) = run_case(&c, &dgs);
            if let Some(p) = p { println!("PANIC inside uflow: {}", p); }
            v
        }
        None => vec![],
    }
}
