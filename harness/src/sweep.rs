//! Exhaustive sweeps over input spaces / operation sequences that do not need the choice-point
//! explorer. A sweep is a list of work units; every unit enumerates its part of the space
//! completely and reports evaluations, distinct outcomes, samples and violations. Violations carry a
//! self-contained case description so that `./check --replay` can re-run exactly that case.

use crate::explore::*;
use std::collections::HashSet;
use std::sync::atomic::{AtomicUsize, Ordering};
use std::sync::Mutex;

#[derive(Default)]
pub struct Acc {
    pub evals: u64,
    pub transitions: u64,
    pub outcomes: HashSet<u64>,
    pub states: HashSet<u64>,
    pub witnesses: u64,
    pub samples: Vec<String>,
    /// (case description usable for replay, violation)
    pub violations: Vec<(String, Violation)>,
    pub panics: u64,
}

impl Acc {
    pub fn violation(&mut self, case: String, v: Violation) {
        if self.violations.len() < 64 && !self.violations.iter().any(|(_, x)| x.sig == v.sig) { self.violations.push((case, v)); }
    }
    pub fn sample(&mut self, s: String) { if self.samples.len() < 3 { self.samples.push(s); } }
}

pub type Unit = Box<dyn Fn(&mut Acc) + Send + Sync>;

/// Runs all units on the explorer's worker threads and merges their results into its statistics.
pub fn run_units(ex: &Explorer, units: Vec<Unit>) {
    let next = AtomicUsize::new(0);
    let merged: Mutex<Vec<Acc>> = Mutex::new(Vec::new());
    std::thread::scope(|scope| {
        for w in 0..ex.threads {
            let (next, merged, units) = (&next, &merged, &units);
            scope.spawn(move || {
                loop {
                    if ex.stats.stop.load(Ordering::Relaxed) { break; }
                    let i = next.fetch_add(1, Ordering::SeqCst);
                    if i >= units.len() { break; }
                    let mut acc = Acc::default();
                    // the wall-clock watchdog also covers sweep units (a subject call that never returns inside one): 300 s per unit
                    if let Some(watch) = ex.watches.get(w) { *watch.item.lock().unwrap() = Some((format!("sweep unit {} of {}", i, units.len()), vec![])); watch.start_ms.store(ex.t0.elapsed().as_millis() as u64 + 1, Ordering::SeqCst); }
                    let r = std::panic::catch_unwind(std::panic::AssertUnwindSafe(|| units[i](&mut acc)));
                    if let Some(watch) = ex.watches.get(w) { watch.start_ms.store(0, Ordering::SeqCst); }
                    if r.is_err() {
                        let mut m = ex.stats.machinery_error.lock().unwrap();
                        if m.is_none() { *m = Some(format!("sweep unit {} panicked outside the guarded subject call: {}", i, crate::explore::take_panic_info().unwrap_or_default())); }
                    }
                    merged.lock().unwrap().push(acc);
                    if ex.t0.elapsed().as_secs_f64() > ex.deadline_s { ex.stats.capped.store(true, Ordering::Relaxed); ex.stats.stop.store(true, Ordering::Relaxed); }
                }
            });
        }
    });
    let s = &ex.stats;
    for acc in merged.into_inner().unwrap() {
        s.executions.fetch_add(acc.evals, Ordering::Relaxed);
        s.transitions.fetch_add(acc.transitions, Ordering::Relaxed);
        s.panics.fetch_add(acc.panics, Ordering::Relaxed);
        s.witnesses.fetch_or(acc.witnesses, Ordering::Relaxed);
        s.outcomes.lock().unwrap().extend(acc.outcomes);
        { let mut st = s.states.lock().unwrap(); if st.len() < STATE_CAP { st.extend(acc.states); } }
        { let mut sm = s.samples.lock().unwrap(); for x in acc.samples { if sm.len() < 8 { sm.push(x); } } }
        for (case, v) in acc.violations {
            if (ex.is_known)(&v) { *ex.known_hits.lock().unwrap().entry(v.sig.clone()).or_insert(0) += 1; continue; }
            let mut f = s.found.lock().unwrap();
            if !f.iter().any(|e| e.violation.sig == v.sig) { f.push(Found { scenario: case, choices: vec![], violation: v, deviations: 0 }); }
        }
    }
}

/// Calls `f` under catch_unwind with the silent panic hook; returns the panic message if it panicked.
pub fn guarded<R>(f: impl FnOnce() -> R) -> Result<R, String> {
    clear_panic_info();
    match std::panic::catch_unwind(std::panic::AssertUnwindSafe(f)) {
        Ok(r) => Ok(r),
        Err(_) => Err(take_panic_info().unwrap_or_else(|| "<panic>".into())),
    }
}

pub fn hex(b: &[u8]) -> String { b.iter().map(|x| format!("{:02x}", x)).collect() }
pub fn unhex(s: &str) -> Vec<u8> { (0..s.len() / 2).map(|i| u8::from_str_radix(&s[2 * i..2 * i + 2], 16).unwrap_or(0)).collect() }
