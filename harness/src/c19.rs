//! C19: heap discipline. Link-world and endpoint-world executions run inside a tracked region of
//! the checking allocator: every release must match the size and alignment of its allocation, no
//! block may be released that was not obtained, and after dropping every uflow object (at any
//! round: mid-transfer, mid-handshake, closing) no byte may remain allocated.

use crate::alloc;
use crate::ew::*;
use crate::explore::*;
use crate::lw::*;
use crate::report::Summary;
use crate::PropRun;
use serde_json::json;
use std::sync::Arc;
use uflow::SendMode;

fn judge(rep: &alloc::Report, what: &str) -> Vec<Violation> {
    let mut v = Vec::new();
    if rep.table_overflow { v.push(viol("C19.machinery", "C19.machinery:table-overflow".into(), "allocator side table overflowed".into())); }
    if let Some(m) = rep.mismatches.first() {
        v.push(viol("C19.layout", format!("C19.layout:{}", if m.0 != m.2 { "size" } else { "align" }), format!("{}: a block allocated with size {} align {} was released with size {} align {} ({} mismatching releases)", what, m.0, m.1, m.2, m.3, rep.mismatches.len())));
    }
    if rep.double_frees != 0 { v.push(viol("C19.free", "C19.free:double".into(), format!("{}: {} releases of blocks that had already been released (double free)", what, rep.double_frees))); }
    if rep.unknown_frees != 0 { v.push(viol("C19.free", "C19.free:unknown".into(), format!("{}: {} releases of blocks that were not allocated inside the session (double free or foreign pointer)", what, rep.unknown_frees))); }
    if rep.live_bytes != 0 { v.push(viol("C19.leak", "C19.leak".into(), format!("{}: {} bytes ({} allocations, {} releases) still allocated after every uflow object was dropped", what, rep.live_bytes, rep.allocs, rep.frees))); }
    v
}

fn lw_scenario_tracked(tag: &str, cfg: LwCfg, script: Vec<Op>, env: LwEnv, d: usize, stop_choices: usize) -> Scenario {
    let si = Arc::new(ScriptInfo::new(script));
    let name = format!("{}|{}|{}|{}|stop{}|d{}", tag, cfg.name(), si.name, env.name(), stop_choices, d);
    let run = move |ch: &mut Chooser| -> ExecResult {
        // the connection is dropped after `stop` rounds (0 = run to the end)
        let stop = if stop_choices > 0 { ch.free(stop_choices + 1) } else { 0 };
        let mut env2 = env.clone();
        if stop > 0 { env2.max_rounds = stop; env2.dev_rounds = env2.dev_rounds.min(stop); }
        uflow::verif::net::reset();
        ch.reserve(4200);
        let ((outcome, wit, trans, delivered), rep) = alloc::tracked_quarantine(|| {
            let tr = run_lw(&cfg, &si, &env2, ch, None);
            let r = (outcome_hash(&tr), crate::lwprops::witnesses(&cfg, &si, &tr), tr.obs.len() as u64, tr.dels.len());
            drop(tr);
            r
        });
        let what = format!("link world, {} rounds{}, {} packets delivered", if stop > 0 { stop } else { env2.max_rounds }, if stop > 0 { " then dropped mid-transfer" } else { "" }, delivered);
        ExecResult { violations: judge(&rep, &what), panic: None, outcome: outcome ^ (rep.peak_bytes as u64 >> 10) << 40, states: vec![], transitions: trans, witnesses: wit,
                     sample: if stop == 3 { Some(format!("{}: allocations {}, peak {} B, live after drop {}", what, rep.allocs, rep.peak_bytes, rep.live_bytes)) } else { None } }
    };
    Scenario { name, d, run: Box::new(run) }
}

fn ew_scenario_tracked(tag: &str, cfg: EwCfg, script: Vec<EwOp>, env: EwEnv, d: usize, stop_choices: usize) -> Scenario {
    let name = format!("{}|{}|{}|{}|stop{}|d{}", tag, cfg.name(), crate::ew::script_name(&script), env.name(), stop_choices, d);
    let run = move |ch: &mut Chooser| -> ExecResult {
        let stop = if stop_choices > 0 { ch.free(stop_choices + 1) } else { 0 };
        let mut env2 = env.clone();
        if stop > 0 { env2.max_rounds = stop; env2.dev_rounds = env2.dev_rounds.min(stop.saturating_sub(env2.dev_start)); env2.stop_when_done = false; }
        uflow::verif::net::reset();
        ch.reserve(4200);
        let ((outcome, wit, trans), rep) = alloc::tracked_quarantine(|| {
            let tr = run_ew(&cfg, &script, &env2, ch);
            let r = (ew_outcome(&tr), crate::eprops::ew_witnesses(&tr), tr.obs.len() as u64);
            drop(tr);
            uflow::verif::net::reset();
            r
        });
        let what = format!("endpoint world, {} rounds{}", if stop > 0 { stop } else { env2.max_rounds }, if stop > 0 { " then server and clients dropped" } else { "" });
        ExecResult { violations: judge(&rep, &what), panic: None, outcome: outcome ^ (rep.peak_bytes as u64 >> 10) << 40, states: vec![], transitions: trans, witnesses: wit << 16,
                     sample: if stop == 2 { Some(format!("{}: allocations {}, peak {} B, live after drop {}", what, rep.allocs, rep.peak_bytes, rep.live_bytes)) } else { None } }
    };
    Scenario { name, d, run: Box::new(run) }
}


/// Forged fragment sets against a lone receiving HalfConnection: every packet shape the parser and
/// `datagram_is_valid` accept (1-4 claimed fragments, full-size fragments before the last, a last
/// fragment of 0 / 1 / 724 / 1447 / 1448 bytes), every arrival order of the fragments, one of them
/// duplicated, then either completed, delivered and released, or left partial; a second packet of the
/// same shape follows, a sync frame then pushes the window over whatever is left, and the connection
/// is dropped. All of it is free choice, enumerated completely.
fn forged_reassembly() -> Scenario {
    use uflow::verif::frame::{DataFrame, Datagram, SyncFrame};
    const FRAG: usize = 1448;
    const LAST: [usize; 5] = [0, 1, 724, 1447, 1448];
    let run = move |ch: &mut Chooser| -> ExecResult {
        let nfrag = 1 + ch.free(4);
        let last_len = LAST[ch.free(LAST.len())];
        // arrival order: successive picks from the remaining fragments; the last pick may be "withhold" (packet stays partial)
        let mut remaining: Vec<usize> = (0..nfrag).collect();
        let mut order = Vec::new();
        while !remaining.is_empty() {
            let k = ch.free(remaining.len() + if remaining.len() == 1 && nfrag > 1 { 1 } else { 0 });
            if k == remaining.len() { break; }
            order.push(remaining.remove(k));
        }
        let dup = ch.free(order.len() + 1);   // position after which the fragment just handed over is handed over again
        let second = ch.free(2) == 1;         // a second packet of the same shape follows on the same channel
        let push = ch.free(2) == 1;           // a sync frame pushes the window past everything before teardown
        ch.reserve(4200);
        let what = format!("forged packet of {} fragments (last one {} B), arrival order {:?}{}{}{}", nfrag, last_len, order, if dup > 0 { format!(", fragment {} twice", order[dup - 1]) } else { String::new() }, if second { ", followed by a second packet" } else { "" }, if push { ", window pushed past by a sync frame" } else { "" });
        let (delivered, rep) = alloc::tracked_quarantine(|| {
            uflow::verif::set_time_ms(0); uflow::verif::seed(5); uflow::verif::set_fuel(2_000_000);
            let cfg = LwCfg { pwin: 4, fwin: 64, rx_alloc: [100_000, 100_000], ..LwCfg::small() };
            let mut hc = uflow::verif::HalfConnection::new(cfg.half(0));
            let p = hc.verif_probe();
            let (pb, mut fid) = (p.rx_packet_base, p.rx_frame_base);
            let mut delivered = 0usize;
            let mut now = 0u64;
            let mut hand = |hc: &mut uflow::verif::HalfConnection, pid: u32, f: usize, fid: &mut u32, delivered: &mut usize, now: &mut u64| {
                let len = if f + 1 == nfrag { last_len } else { FRAG };
                let dg = Datagram { sequence_id: pid, channel_id: 3, window_parent_lead: 0, channel_parent_lead: 0, fragment_id: f as u16, fragment_id_last: (nfrag - 1) as u16, data: vec![f as u8 + 1; len].into_boxed_slice() };
                hc.handle_data_frame(DataFrame { sequence_id: *fid, nonce: false, datagrams: vec![dg] });
                *fid = fid.wrapping_add(1);
                *now += 20; uflow::verif::set_time_ms(*now);
                hc.step();
                let mut ps = PS(vec![]); hc.receive(&mut ps); *delivered += ps.0.len(); drop(ps);
                let mut fs = FS(vec![]); hc.flush(&mut fs); drop(fs);
            };
            for (i, &f) in order.iter().enumerate() {
                hand(&mut hc, pb, f, &mut fid, &mut delivered, &mut now);
                if dup == i + 1 { hand(&mut hc, pb, f, &mut fid, &mut delivered, &mut now); }
            }
            if second { for f in 0..nfrag { hand(&mut hc, (pb + 1) & 0xFFFFF, f, &mut fid, &mut delivered, &mut now); } }
            if push {
                hc.handle_sync_frame(SyncFrame { next_frame_id: Some(fid), next_packet_id: Some((pb + 3) & 0xFFFFF) });
                hc.step(); let mut ps = PS(vec![]); hc.receive(&mut ps); delivered += ps.0.len(); drop(ps);
            }
            drop(hc);
            delivered
        });
        uflow::verif::set_fuel(u64::MAX);
        let complete = order.len() == nfrag;
        let mut violations = judge(&rep, &what);
        let expect = complete as usize + second as usize;
        if delivered != expect { violations.push(viol("C19.forged-delivery", "C19.forged-delivery".into(), format!("{}: {} packets delivered, expected {}", what, delivered, expect))); }
        ExecResult { violations, panic: None, outcome: (nfrag as u64) << 32 ^ (last_len as u64) << 16 ^ (delivered as u64) << 8 ^ (rep.peak_bytes as u64 >> 8) << 40 ^ (complete as u64) << 1 ^ push as u64, states: vec![], transitions: (order.len() + dup.min(1)) as u64, witnesses: 0,
                     sample: if nfrag == 2 && last_len == 0 && dup == 0 && !second && !push { Some(format!("{}: allocations {}, peak {} B, live after drop {}", what, rep.allocs, rep.peak_bytes, rep.live_bytes)) } else { None } }
    };
    Scenario { name: "C19.forged-reassembly|nfrag1-4|last0.1.724.1447.1448|all-orders|dup|second|push".into(), d: 0, run: Box::new(run) }
}

pub fn replay_case_c19(case: &str) -> Vec<Violation> { crate::c16::FOR_C19.store(true, std::sync::atomic::Ordering::Relaxed); crate::c16::replay_case(case) }

pub fn build(quick: bool) -> PropRun {
    let mut scs = Vec::new();
    use SendMode::*;
    // (64, 65 and 129 fragments: per-fragment bookkeeping of the sender and the receiver is kept in 64-bit words)
    let sizes: Vec<usize> = if quick { vec![1447, 1448, 1449, 2000, 2896, 2897, 4345, 64 * 1448, 64 * 1448 + 1, 100_000, 128 * 1448 + 1] } else { vec![1, 1447, 1448, 1449, 2000, 2895, 2896, 2897, 4343, 4344, 4345, 64 * 1448, 64 * 1448 + 1, 100_000, 128 * 1448, 128 * 1448 + 1, 1_000_000] };
    for &size in sizes.iter() {
        let cfg = LwCfg { pwin: 4, fwin: 64, rx_alloc: [2_000_000, 2_000_000], ..LwCfg::small() };
        // paths: delivered; skipped by a later packet (first frames lost); window advanced over a partial packet (sync after loss); dropped mid-transfer at every round
        for (pname, script) in [
            ("reliable", vec![send(0, 0, 0, Reliable, size), send(1, 0, 0, Unreliable, 30)]),
            ("unreliable-then-newer", vec![send(0, 0, 0, Unreliable, size), send(1, 0, 0, Unreliable, 31), send(2, 0, 1, Reliable, 32)]),
            ("persistent-both-ways", vec![send(0, 0, 0, Persistent, size), send(0, 1, 0, Persistent, size.min(5000)), send(3, 0, 0, Reliable, 5)]),
        ] {
            let big = size > 10_000;
            let dev = if big { 3 } else if quick { 5 } else { 8 };
            let env = LwEnv { fates: &[Fate::Deliver, Fate::Drop, Fate::Dup, Fate::Delay3], deltas: &[20, 2000], dev_rounds: dev, dev_start: 0, max_rounds: if big { 2500 } else { 400 }, skip_choice: false, flush_choice: false, blackouts: &[],
                              stop_when_idle: true, fair_delta: 20, slow_after: usize::MAX, slow_delta: 250, fuel: 5_000_000, shifts: &[] };
            let stops = if big { 6 } else if quick { 10 } else { 24 };
            scs.push(lw_scenario_tracked(&format!("C19.lw.{}", pname), cfg.clone(), script.clone(), env.clone(), if big || quick { 1 } else { 2 }, stops));
            // the same on a warm connection, where all fragments of a packet leave in one flush and a lost one is resent last
            if !big {
                let mut envw = env.clone(); envw.dev_start = 8; envw.max_rounds += 8;
                scs.push(lw_scenario_tracked(&format!("C19.lw-warm.{}", pname), cfg.clone(), crate::lwprops::warm(&script, 8), envw, if quick { 1 } else { 2 }, 0));
            }
        }
    }
    // TimeSensitive packets that go stale in the send queue, are given up after being dequeued, or are cut across flushes (the pool's
    // stall scripts), torn down at every round
    for sp in crate::pool::lw_pool(quick).into_iter().filter(|s| s.tag.starts_with("stall.ts") || s.tag.starts_with("stall.cut")) {
        let mut env = sp.env.clone(); env.max_rounds = 400; env.dev_rounds = env.dev_rounds.min(5);
        scs.push(lw_scenario_tracked(&format!("C19.lw.{}", sp.tag), sp.cfg.clone(), sp.script.ops.clone(), env, 1, if quick { 8 } else { 20 }));
    }
    // endpoint world: client / server dropped in every lifecycle state
    for (sname, script) in [
        ("connect-transfer-disconnect", vec![at(0, Act::Connect(0)), after_c(0, 1, Act::CSend(0, 0, Reliable, 3000)), after_s(0, 1, Act::SSend(0, 1, Persistent, 2897)), after_c(0, 6, Act::CDisconnect(0))]),
        ("server-disconnects-now", vec![at(0, Act::Connect(0)), after_c(0, 1, Act::CSend(0, 0, Unreliable, 4345)), after_s(0, 2, Act::SDisconnectNow(0))]),
        ("drop-and-reconnect", vec![at(0, Act::Connect(0)), after_c(0, 1, Act::CSend(0, 0, Reliable, 2000)), after_s(0, 2, Act::SDrop(0)), at(6, Act::Forget(0)), at(7, Act::Connect(0)), at(10, Act::CSend(0, 0, Reliable, 1449))]),
        ("two-clients-one-refused", vec![at(0, Act::Connect(0)), at(1, Act::Connect(1)), after_c(0, 1, Act::CSend(0, 0, Reliable, 1448))]),
    ] {
        let mut cfg = EwCfg::new(2);
        if sname == "two-clients-one-refused" { cfg.max_active = 1; cfg.max_total = 1; }
        let mut env = EwEnv::basic(if quick { 5 } else { 8 }, 80);
        env.fates = DF_BASIC; env.deltas = &[100, 2000]; env.fair_delta = 500;
        scs.push(ew_scenario_tracked(&format!("C19.ew.{}", sname), cfg.clone(), script.clone(), env.clone(), if quick { 1 } else { 2 }, if quick { 14 } else { 30 }));
        // applications that keep the event iterator of one step() across their next call of step() and read it afterwards
        let mut late = env; late.late_events = true;
        let mut s2 = script; s2.extend(vec![after_s(0, 3, Act::SSend(0, 0, Reliable, 21)), after_s(0, 3, Act::SSend(0, 0, Reliable, 22)), after_s(0, 4, Act::SSend(0, 0, Reliable, 23)), after_c(0, 3, Act::CSend(0, 3, Reliable, 24)), after_c(0, 4, Act::CSend(0, 3, Reliable, 25))]);
        scs.push(ew_scenario_tracked(&format!("C19.ew.events-read-one-step-late.{}", sname), cfg, s2, late, if quick { 1 } else { 2 }, if quick { 14 } else { 30 }));
    }
    scs.push(forged_reassembly());
    // every datagram of C16's parser sweeps (short payloads after every type byte, substitutions, extensions, truncations with the CRC
    // re-fixed, constant fills) parsed inside a tracked region: a frame that is rejected half-way must not leave its first datagrams behind
    crate::c16::FOR_C19.store(true, std::sync::atomic::Ordering::Relaxed);
    let parse_units = crate::c16::parse_units(quick);
    // a handshake that never completes while the application has already queued packets (they wait in the pending client), run into the
    // 22 s time-out or torn down before it; and the same with the SYN-ACKs lost
    for (sname, lose_syn, lose_synack) in [("syn-never-answered", 12usize, 0usize), ("synack-always-lost", 0, 12)] {
        let cfg = EwCfg::new(1);
        let script = vec![at(0, Act::Connect(0)), at(1, Act::CSend(0, 0, Reliable, 100)), at(1, Act::CSend(0, 1, Reliable, 3 * 1448 + 17)), at(2, Act::CSend(0, 2, Unreliable, 1448))];
        let mut env = EwEnv::basic(0, 60);
        env.fates = DF_NONE; env.deltas = &[500]; env.fair_delta = 500; env.lose_syn = lose_syn; env.lose_synack = lose_synack; env.stop_when_done = false;
        scs.push(ew_scenario_tracked(&format!("C19.ew.pending-with-queued-sends.{}", sname), cfg, script, env, 0, 58));
    }
    PropRun { level: "fault_enumeration", scenarios: scs, units: parse_units, replay_case: Some(replay_case_c19), summary: Summary {
        rule: "link-world and endpoint-world executions (deviation-bounded fates/timings; the point at which every uflow object is dropped is a completely enumerated free choice) run under a checking global allocator: every release is compared with the size/alignment of its allocation, unknown releases are counted, and live bytes must return to zero after teardown; distinct = distinct (outcome, peak heap class)".into(),
        bounds: json!({"packet_sizes": sizes, "paths": ["delivered", "skipped by a later packet", "window advanced over a partial packet", "dropped mid-transfer at every round", "client/server dropped in every lifecycle state", "TimeSensitive packets going stale / given up / cut across flushes", "handshake never completed with packets queued in the pending client", "forged fragment sets: 1-4 fragments x last fragment 0/1/724/1447/1448 B x every arrival order x duplicate x partial/complete x window pushed past"], "d": if quick { 1 } else { 2 }}),
        assumptions: vec!["the allocator sees every allocation of the thread inside the session, the harness's own included; the harness's allocations are made by std collections whose layouts are correct, so a mismatch is attributed to uflow (its only unsafe re-boxing site is FragmentBuffer::finalize)".into(),
                          "requested sizes are compared, not allocator-internal size classes".into()],
        witness_names: vec![], extra: json!({}), exhaustive: true } }
}
